(* line-protocol driver for the extracted model of the bytecode VM and the bytecode verifier
   (coq/theories/Bvm/Model.v, Bvm/Verify.v; checks/bvm_part.py writes the cases from the dumps of
   harness/lang/src/bin/bc_dump.rs).

   One case per input line, tokens separated by blanks (all integers decimal; words are unsigned 64-bit):
     id nfuns { pwords nparam nret ssize  ncode { OpName operands.. }  nconst {word}  ntables { min noffs {off} }
                nup { pos size is_closure }  new { pc elem_words } }      (the annotation f_ew of Bvm/Model.v)
        gsize next { code arity }            (code 255 = an external function the model does not know; 200 + op = array builtin;
                                              199 = _mimium_schedule_at)
        dsp(-1 = none) ntypes {0|1 (1 = no boxed reference inside)} ntrees {tree} fuel do_verify do_run nsamples { now_bits nin {word} }
        tree := P | B tree | S name n {0 | 1 tree} | T n {size tree} | A name
   One answer line per case:
     #id V <0|1|-> [first failing: fn pc | B <fuel bound of dsp or -> S <- | F fault | U unsup | T>] | main ; sample ; ...
       (S: where the INSTRUMENTED semantics stops on an accepted program: - = every call returned)
     outcome := R n pos O {word} W {word} C closures.len heap.len  |  F <fault>  |  U <unsupported>  |  T
                | D   (a queued scheduler task is due at this sample: the model stops here)
   The program runs on the extended machine of Bvm/XModel.v (strict = false: the transcription of vm.rs).
   The arithmetic record handed to the model is real IEEE double arithmetic on bit patterns (Int64.float_of_bits),
   the libm of this machine for sin cos pow log; `now` is the value the dump gives for the sample. *)
open Bvm_model

exception Bad of string

(* ---------- numbers ---------- *)
let rec pos_of_int (i : int) : positive =
  if i <= 1 then XH else if i land 1 = 1 then XI (pos_of_int (i lsr 1)) else XO (pos_of_int (i lsr 1))
let n_of_int (i : int) : n = if i <= 0 then N0 else Npos (pos_of_int i)
let rec int_of_pos = function XH -> 1 | XO p -> 2 * int_of_pos p | XI p -> 2 * int_of_pos p + 1
let int_of_n = function N0 -> 0 | Npos p -> int_of_pos p
let z_of_int (i : int) : z = if i = 0 then Z0 else if i > 0 then Zpos (pos_of_int i) else Zneg (pos_of_int (- i))
let int_of_z = function Z0 -> 0 | Zpos p -> int_of_pos p | Zneg p -> - (int_of_pos p)

(* an int64 read as an UNSIGNED 64-bit word *)
let z_of_u64 (v : int64) : z =
  if v = 0L then Z0
  else begin
    let top = ref 63 in
    while Int64.logand (Int64.shift_right_logical v !top) 1L = 0L do decr top done;
    let p = ref XH in
    for b = !top - 1 downto 0 do
      p := if Int64.logand (Int64.shift_right_logical v b) 1L = 1L then XI !p else XO !p
    done;
    Zpos !p
  end
let rec u64_of_pos = function
  | XH -> 1L
  | XO p -> Int64.shift_left (u64_of_pos p) 1
  | XI p -> Int64.logor (Int64.shift_left (u64_of_pos p) 1) 1L
let u64_of_z = function Z0 -> 0L | Zpos p -> u64_of_pos p | Zneg p -> Int64.neg (u64_of_pos p)
let z_of_i64 (v : int64) : z =
  if v >= 0L then z_of_u64 v
  else if v = Int64.min_int then Zneg (match z_of_u64 v with Zpos p -> p | _ -> XH)
  else (match z_of_u64 (Int64.neg v) with Zpos p -> Zneg p | _ -> Z0)

let nat_of_int (i : int) : nat =
  let r = ref O in
  for _ = 1 to i do r := S !r done;
  !r

(* ---------- arithmetic on bit patterns ---------- *)
let fl (w : z) : float = Int64.float_of_bits (u64_of_z w)
let bits (x : float) : z = z_of_u64 (Int64.bits_of_float x)
let b2f b = if b then 1.0 else 0.0
(* Rust `x as i64`: truncation toward zero, saturating, NaN -> 0 *)
let f_to_i64 (x : float) : int64 =
  if Float.is_nan x then 0L
  else if x >= 9223372036854775808.0 then Int64.max_int
  else if x <= -9223372036854775808.0 then Int64.min_int
  else Int64.of_float x
(* Rust `x as u64` (saturating, NaN -> 0), as a float again for comparison *)
let f_to_u64 (x : float) : float =
  if Float.is_nan x || x <= 0.0 then 0.0 else if x >= 18446744073709551615.0 then 18446744073709551615.0 else Float.trunc x
(* f64::min / f64::max as compiled on this machine: NaN loses; on a tie (-0.0 against 0.0) the FIRST operand is returned *)
let rust_min a b = if Float.is_nan a then b else if b < a then b else a
let rust_max a b = if Float.is_nan a then b else if b > a then b else a

let arith_of (now_bits : z) : arith =
  { a_bin = (fun o x y ->
      let a = fl x and b = fl y in
      bits (match o with
        | BAddF -> a +. b | BSubF -> a -. b | BMulF -> a *. b | BDivF -> a /. b | BModF -> Float.rem a b
        | BPowF -> Float.pow a b
        | BEq -> b2f (a = b) | BNe -> b2f (a <> b) | BGt -> b2f (a > b) | BGe -> b2f (a >= b)
        | BLt -> b2f (a < b) | BLe -> b2f (a <= b)
        | BAnd -> b2f (a > 0.0 && b > 0.0) | BOr -> b2f (a > 0.0 || b > 0.0)));
    a_un = (fun o x ->
      let a = fl x in
      match o with
      | ONegF -> bits (Float.neg a) | OAbsF -> bits (Float.abs a) | OSqrtF -> bits (Float.sqrt a)
      | OSinF -> bits (Float.sin a) | OCosF -> bits (Float.cos a) | OLogF -> bits (Float.log a)
      | ONot -> bits (b2f (not (a > 0.0)))
      | OCastFtoI -> z_of_u64 (f_to_i64 a)
      | OCastItoF -> bits (Int64.to_float (u64_of_z x)));
    a_truthy = (fun x -> fl x > 0.0);
    a_trunc = (fun x -> z_of_i64 (f_to_i64 (fl x)));
    a_ext = (fun code args ->
      let arg k = match List.nth_opt args k with Some w -> fl w | None -> 0.0 in
      let a = arg 0 and b = arg 1 in
      match int_of_n code with
      | 0 -> now_bits
      | 1 -> bits 48000.0
      | 10 -> bits (Float.neg a) | 11 -> bits (Float.abs a) | 12 -> bits (Float.sqrt a) | 13 -> bits (Float.round a)
      | 14 -> bits (Float.floor a) | 15 -> bits (Float.ceil a) | 16 -> bits (b2f (a = 0.0))
      | 17 -> bits (Float.sin a) | 18 -> bits (Float.cos a) | 19 -> bits (Float.tan a)
      | 20 -> bits (Float.sinh a) | 21 -> bits (Float.cosh a) | 22 -> bits (Float.tanh a)
      | 23 -> bits (Float.asin a) | 24 -> bits (Float.acos a) | 25 -> bits (Float.atan a)
      | 26 | 27 -> (match args with w :: _ -> w | [] -> Z0)
      | 40 -> bits (a +. b) | 41 -> bits (a -. b) | 42 -> bits (a *. b) | 43 -> bits (a /. b) | 44 -> bits (Float.rem a b)
      | 45 -> bits (b2f (a = b)) | 46 -> bits (b2f (a <> b)) | 47 -> bits (b2f (a < b)) | 48 -> bits (b2f (a <= b))
      | 49 -> bits (b2f (a > b)) | 50 -> bits (b2f (a >= b))
      | 51 -> bits (Float.atan2 a b) | 52 -> bits (Float.pow a b) | 53 -> bits (rust_min a b) | 54 -> bits (rust_max a b)
      | _ -> Z0) }

(* ---------- token reader ---------- *)
type rd = { toks : string array; mutable at : int }
let next r = if r.at >= Array.length r.toks then raise (Bad "unexpected end of case") else (let t = r.toks.(r.at) in r.at <- r.at + 1; t)
let int r = let t = next r in try int_of_string t with _ -> raise (Bad ("integer expected: " ^ t))
let nn r = n_of_int (int r)
let word r = let t = next r in try z_of_u64 (Int64.of_string ("0u" ^ t)) with _ -> raise (Bad ("word expected: " ^ t))
let sz r = let t = next r in try z_of_i64 (Int64.of_string t) with _ -> raise (Bad ("signed integer expected: " ^ t))
let rec times k f = if k <= 0 then [] else let x = f () in x :: times (k - 1) f

let instr_of (r : rd) : instr =
  let name = next r in
  let a1 c = let x = nn r in c x in
  let a2 c = let x = nn r in let y = nn r in c (x, y) in
  let a3 c = let x = nn r in let y = nn r in let z = nn r in c (x, y, z) in
  match name with
  | "Move" -> a2 (fun (a, b) -> Move (a, b)) | "MoveConst" -> a2 (fun (a, b) -> MoveConst (a, b))
  | "MoveImmF" -> let d = nn r in let v = word r in MoveImmF (d, v)
  | "MoveRange" -> a3 (fun (a, b, c) -> MoveRange (a, b, c))
  | "Call" -> a3 (fun (a, b, c) -> Call (a, b, c)) | "CallCls" -> a3 (fun (a, b, c) -> CallCls (a, b, c))
  | "CallExtFun" -> a3 (fun (a, b, c) -> CallExtFun (a, b, c))
  | "Closure" -> a2 (fun (a, b) -> Closure (a, b)) | "Close" -> a1 (fun a -> Close a)
  | "MakeHeapClosure" -> a3 (fun (a, b, c) -> MakeHeapClosure (a, b, c))
  | "CloseHeapClosure" -> a1 (fun a -> CloseHeapClosure a) | "CloneHeap" -> a1 (fun a -> CloneHeap a)
  | "CallIndirect" -> a3 (fun (a, b, c) -> CallIndirect (a, b, c))
  | "BoxAlloc" -> a3 (fun (a, b, c) -> BoxAlloc (a, b, c)) | "BoxLoad" -> a3 (fun (a, b, c) -> BoxLoad (a, b, c))
  | "BoxClone" -> a1 (fun a -> BoxClone a) | "BoxRelease" -> a1 (fun a -> BoxRelease a)
  | "BoxStore" -> a3 (fun (a, b, c) -> BoxStore (a, b, c))
  | "CloneUserSum" -> a3 (fun (a, b, c) -> CloneUserSum (a, b, c))
  | "ReleaseUserSum" -> a3 (fun (a, b, c) -> ReleaseUserSum (a, b, c))
  | "GetUpValue" -> a3 (fun (a, b, c) -> GetUpValue (a, b, c)) | "SetUpValue" -> a3 (fun (a, b, c) -> SetUpValue (a, b, c))
  | "GetGlobal" -> a3 (fun (a, b, c) -> GetGlobal (a, b, c)) | "SetGlobal" -> a3 (fun (a, b, c) -> SetGlobal (a, b, c))
  | "GetState" -> a2 (fun (a, b) -> GetState (a, b)) | "SetState" -> a2 (fun (a, b) -> SetState (a, b))
  | "PushStatePos" -> a1 (fun a -> PushStatePos a) | "PopStatePos" -> a1 (fun a -> PopStatePos a)
  | "Return0" -> Return0 | "Return" -> a2 (fun (a, b) -> Return (a, b))
  | "Delay" -> a3 (fun (a, b, c) -> Delay (a, b, c)) | "Mem" -> a2 (fun (a, b) -> Mem (a, b))
  | "Jmp" -> let o = sz r in Jmp o
  | "JmpIfNeg" -> let c = nn r in let o = sz r in JmpIfNeg (c, o)
  | "JmpTable" -> a2 (fun (a, b) -> JmpTable (a, b))
  | "AddF" -> a3 (fun (a, b, c) -> AddF (a, b, c)) | "SubF" -> a3 (fun (a, b, c) -> SubF (a, b, c))
  | "MulF" -> a3 (fun (a, b, c) -> MulF (a, b, c)) | "DivF" -> a3 (fun (a, b, c) -> DivF (a, b, c))
  | "ModF" -> a3 (fun (a, b, c) -> ModF (a, b, c))
  | "NegF" -> a2 (fun (a, b) -> NegF (a, b)) | "AbsF" -> a2 (fun (a, b) -> AbsF (a, b))
  | "SqrtF" -> a2 (fun (a, b) -> SqrtF (a, b)) | "SinF" -> a2 (fun (a, b) -> SinF (a, b))
  | "CosF" -> a2 (fun (a, b) -> CosF (a, b))
  | "PowF" -> a3 (fun (a, b, c) -> PowF (a, b, c)) | "LogF" -> a2 (fun (a, b) -> LogF (a, b))
  | "AddI" -> a3 (fun (a, b, c) -> AddI (a, b, c)) | "SubI" -> a3 (fun (a, b, c) -> SubI (a, b, c))
  | "MulI" -> a3 (fun (a, b, c) -> MulI (a, b, c)) | "DivI" -> a3 (fun (a, b, c) -> DivI (a, b, c))
  | "ModI" -> a3 (fun (a, b, c) -> ModI (a, b, c))
  | "NegI" -> a2 (fun (a, b) -> NegI (a, b)) | "AbsI" -> a2 (fun (a, b) -> AbsI (a, b))
  | "PowI" -> a3 (fun (a, b, c) -> PowI (a, b, c)) | "LogI" -> a3 (fun (a, b, c) -> LogI (a, b, c))
  | "Not" -> a2 (fun (a, b) -> Not (a, b))
  | "Eq" -> a3 (fun (a, b, c) -> CmpEq (a, b, c)) | "Ne" -> a3 (fun (a, b, c) -> CmpNe (a, b, c))
  | "Gt" -> a3 (fun (a, b, c) -> CmpGt (a, b, c)) | "Ge" -> a3 (fun (a, b, c) -> CmpGe (a, b, c))
  | "Lt" -> a3 (fun (a, b, c) -> CmpLt (a, b, c)) | "Le" -> a3 (fun (a, b, c) -> CmpLe (a, b, c))
  | "And" -> a3 (fun (a, b, c) -> And (a, b, c)) | "Or" -> a3 (fun (a, b, c) -> Or (a, b, c))
  | "CastFtoI" -> a2 (fun (a, b) -> CastFtoI (a, b)) | "CastItoF" -> a2 (fun (a, b) -> CastItoF (a, b))
  | "CastItoB" -> a2 (fun (a, b) -> CastItoB (a, b))
  | "AllocArray" -> a3 (fun (a, b, c) -> AllocArray (a, b, c))
  | "GetArrayElem" -> a3 (fun (a, b, c) -> GetArrayElem (a, b, c))
  | "SetArrayElem" -> a3 (fun (a, b, c) -> SetArrayElem (a, b, c))
  | "Dummy" -> Dummy
  | s -> raise (Bad ("unknown instruction " ^ s))

let fn_of (r : rd) : fn =
  let pwords = nn r in
  let nparam = nn r in
  let nret = nn r in
  let ssize = nn r in
  let ncode = int r in
  let code = times ncode (fun () -> instr_of r) in
  let nconst = int r in
  let consts = times nconst (fun () -> word r) in
  let ntab = int r in
  let tabs = times ntab (fun () ->
    let mn = sz r in
    let k = int r in
    let offs = times k (fun () -> sz r) in
    { jt_min = mn; jt_offsets = offs }) in
  let nup = int r in
  let ups = times nup (fun () ->
    let ps = nn r in
    let sz = nn r in
    let isc = int r = 1 in
    { u_pos = ps; u_size = sz; u_isc = isc }) in
  let new_ = int r in
  let ews = times new_ (fun () ->
    let pc = nn r in
    let w = nn r in
    (pc, w)) in
  { f_pwords = pwords; f_nparam = nparam; f_nret = nret; f_code = code; f_consts = consts; f_jt = tabs; f_ssize = ssize;
    f_up = ups; f_ew = ews }

let prog_of (r : rd) : program =
  let nf = int r in
  let funs = times nf (fun () -> fn_of r) in
  let gsize = nn r in
  let next_ = int r in
  let ext = times next_ (fun () ->
    let code = int r in
    let ar = int r in
    (* 255: unknown; 200 + op: an array builtin, its second number is the element width of a `$arityN` specialisation *)
    if code = 255 then ExtOther
    else if code = 199 then ExtSched
    else if code >= 200 then ExtArr (n_of_int (code - 200), n_of_int ar)
    else ExtPure (n_of_int code, n_of_int ar)) in
  let dsp = int r in
  let nty = int r in
  let tys = times nty (fun () -> int r = 1) in
  let rec tree () : ty =
    match next r with
    | "P" -> TPrim
    | "B" -> let t = tree () in TBoxed t
    | "A" -> let n = nn r in TAlias n
    | "S" -> let name = nn r in
             let k = int r in
             let vs = times k (fun () -> if int r = 1 then Some (tree ()) else None) in
             TSum (name, vs)
    | "T" -> let k = int r in
             let es = times k (fun () -> let sz = nn r in let t = tree () in (sz, t)) in
             TTuple es
    | s -> raise (Bad ("type tree expected: " ^ s)) in
  let ntr = int r in
  let trees = times ntr tree in
  { p_funs = funs; p_gsize = gsize; p_ext = ext; p_dsp = (if dsp < 0 then None else Some (n_of_int dsp)); p_types = tys;
    p_tys = trees }

(* ---------- printing ---------- *)
let fault_name = function
  | StackReadOOB -> "StackReadOOB" | ConstOOB -> "ConstOOB" | FnIndexOOB -> "FnIndexOOB" | JumpOOB -> "JumpOOB"
  | StateOOB -> "StateOOB" | GlobalOOB -> "GlobalOOB" | BadNret -> "BadNret" | ExtIndexOOB -> "ExtIndexOOB"
  | JumpTableOOB -> "JumpTableOOB" | BaseUnderflow -> "BaseUnderflow" | TypeTableOOB -> "TypeTableOOB"
  | NoClosureEnv -> "NoClosureEnv" | UpvalueIndexOOB -> "UpvalueIndexOOB"
  | Dyn DynHandle -> "DynHandle" | Dyn DynUpvalue -> "DynUpvalue" | Dyn DynSignature -> "DynSignature"
  | Dyn DynReentry -> "DynReentry" | Dyn DynOpenWrite -> "DynOpenWrite" | Dyn DynCellWidth -> "DynCellWidth"
  | Dyn DynElemWidth -> "DynElemWidth"
let unsup_name = function UnsupInstr -> "UnsupInstr" | UnsupExt -> "UnsupExt" | UnsupNretFallback -> "UnsupNretFallback" | UnsupBoxed -> "UnsupBoxed"

let add_words b (l : z list) = List.iter (fun w -> Buffer.add_string b (Printf.sprintf " %Lu" (u64_of_z w))) l

let add_outcome b (o : xoutcome) =
  match o with
  | XRet (k, x) ->
      let m = x.x_core in
      Buffer.add_string b (Printf.sprintf "R %d %d O" (int_of_n k) (int_of_n m.m_pos));
      add_words b m.m_stack;
      Buffer.add_string b " W";
      add_words b m.m_state;
      Buffer.add_string b (Printf.sprintf " C %d %d" (int_of_n (x_ncls x)) (int_of_n (x_nheap x)))
  | XFault f -> Buffer.add_string b ("F " ^ fault_name f)
  | XOutOfFuel -> Buffer.add_string b "T"
  | XUnsupported u -> Buffer.add_string b ("U " ^ unsup_name u)

(* verdict of the extracted verifier (Bvm/XVerify.v), and the checked fuel bound when there is one (programs of the
   old subset only: term_ok knows nothing about indirect calls) *)
let fuel_bound (p : program) : (int * int) option =
  if closure_free p && verify p && term_ok p (costs p) then Some (int_of_n (fuel_main p), int_of_n (fuel_dsp p)) else None

let verdict (p : program) (fb : (int * int) option) : string =
  if xverify p then (match fb with Some (_, d) -> Printf.sprintf "V 1 B %d" d | None -> "V 1 B -")
  else match xfirst_bad p with
    | Some (fi, pc) -> Printf.sprintf "V 0 fn %d pc %d" (int_of_n fi) (int_of_n pc)
    | None -> "V 0 entry"

(* BVM_STRICT=1: run the instrumented semantics (development aid: how often do its extra checks fire on real bytecode) *)
let strict = (try Sys.getenv "BVM_STRICT" = "1" with Not_found -> false)

let run_case (line : string) : string =
  let toks = Array.of_list (List.filter (fun s -> s <> "") (String.split_on_char ' ' line)) in
  let r = { toks; at = 0 } in
  let id = (try next r with Bad _ -> "?") in
  let b = Buffer.create 1024 in
  Buffer.add_string b ("#" ^ id ^ " ");
  (try
    let p = prog_of r in
    let fuel = nat_of_int (int r) in
    let do_verify = int r in
    let do_run = int r in
    let ns = int r in
    let rows = times ns (fun () ->
      let now = word r in
      let nin = int r in
      let ins = times nin (fun () -> word r) in
      (now, ins)) in
    (* an accepted program with a checked fuel bound runs with EXACTLY that fuel (theorem C03_bvm_fuel) *)
    let fb = if do_verify = 1 && xverify p then fuel_bound p else None in
    let fuel_m, fuel_d = match fb with Some (fm, fd) -> nat_of_int fm, nat_of_int fd | None -> fuel, fuel in
    if do_verify = 1 then begin
      Buffer.add_string b (verdict p fb);
      (* an accepted program also runs in the instrumented semantics (theorem C03_bvm_closures_verified_safe_partial) *)
      if xverify p && do_run = 1 then begin
        let stop = ref "-" in
        let note o = match o with
          | XRet _ -> () | XFault f -> stop := "F " ^ fault_name f | XUnsupported u -> stop := "U " ^ unsup_name u
          | XOutOfFuel -> stop := "T" in
        (match xexec_main (arith_of Z0) p true fuel_m (xmach0 p) with
         | XRet (_, x) ->
             let x = ref x in
             List.iter (fun (now, ins) ->
               if !stop = "-" then
                 (match xexec_dsp (arith_of now) p true fuel_d ins !x with
                  | XRet (_, x') -> x := x'
                  | o -> note o)) rows
         | o -> note o);
        Buffer.add_string b (" S " ^ !stop)
      end
    end else Buffer.add_string b "V -";
    Buffer.add_string b " |";
    if do_run = 1 then begin
      let a0 = arith_of Z0 in
      let o = xexec_main a0 p strict fuel_m (xmach0 p) in
      Buffer.add_char b ' ';
      add_outcome b o;
      (match o with
       | XRet (_, m) ->
           let m = ref m and go = ref true in
           List.iter (fun (now, ins) ->
             (* a task `_mimium_schedule_at` queued is due at this sample: the scheduler plugin of the real VM runs it before
                dsp; the model does not (the task queue is not modelled): the comparison ends here *)
             if !go && List.exists (fun (tw, _) -> f_to_u64 (fl tw) <= f_to_u64 (fl now)) (!m).x_tasks then begin
               Buffer.add_string b " ; D";
               go := false
             end;
             if !go then begin
               let o = xexec_dsp (arith_of now) p strict fuel_d ins !m in
               Buffer.add_string b " ; ";
               add_outcome b o;
               (match o with XRet (_, m') -> m := m' | _ -> go := false)
             end) rows
       | _ -> ())
    end
  with Bad msg -> Buffer.add_string b ("!input-error " ^ msg));
  Buffer.contents b

let () =
  try
    while true do
      let line = input_line stdin in
      if String.trim line <> "" then begin
        print_string (run_case line);
        print_newline ()
      end
    done
  with End_of_file -> ()
