(* line-protocol driver for the extracted Lmmx reference semantics (coq/theories/Lmmx/Ref.v).
   input line:  FUEL N K v(0,0) ... v(N-1,K-1) | <program s-expr>
   output line: JSON  {"ref":[[..],..],"init_instances":k,"instances":m,"dyn_stateful":bool}
              | {"err":"fuel"} | {"err":"stuck","code":c} | {"big":true} | {"error":"<parse failure>"}
   program  := (prog (globals G ..) (inputs x ..) (lets (PAT E) ..) (outs E ..))
   G        := (fun NAME (P ..) E) | (glet PAT E)          P := (x) | (x E)   [parameter with default]
   PAT      := (pv x) | pw | (pt PAT ..) | (pr (f PAT) ..)
   E        := (lit z) (var x) now sr self (bin op E E) (neg E) (let PAT E E) (if E E E) (mem E) (delay n E E)
               (tup E ..) (proj E i) (rec (f E) ..) (fld E f) (lam (x ..) E) (app E E ..) (cnamed f (x E) ..) (pipe E E)
               (asg x E) (seq E E) (selfs SH) (con TN TAG) (con TN TAG E) (match E (MP E) ..)
   SH       := N | (st SH ..) | (sr (f SH) ..) | (ss NAME OPT ..)   OPT := - | SH        [shape a `self` is read at]
   MP       := (ml z) | mw | (mc TAG) | (mc TAG PAT) | (mt MP ..)
   dyn_stateful: an instance created after the global initialisation holds state (class of finding X4) *)
open Lmmx_model
let rec p_of_int i = if i = 1 then XH else if i land 1 = 0 then XO (p_of_int (i / 2)) else XI (p_of_int (i / 2))
let n_of_int i = if i = 0 then N0 else Npos (p_of_int i)
let z_of_int i = if i = 0 then Z0 else if i > 0 then Zpos (p_of_int i) else Zneg (p_of_int (-i))
exception Big
let rec int_of_p d = function
  | XH -> 1
  | XO p -> if d > 60 then raise Big else 2 * int_of_p (d + 1) p
  | XI p -> if d > 60 then raise Big else 2 * int_of_p (d + 1) p + 1
let int_of_z = function Z0 -> 0 | Zpos p -> int_of_p 0 p | Zneg p -> - (int_of_p 0 p)
let rec nat_of_int i = if i = 0 then O else S (nat_of_int (i - 1))
let rec int_of_nat = function O -> 0 | S n -> 1 + int_of_nat n

type sx = A of string | L of sx list
let parse_sx (s : string) : sx =
  let n = String.length s in
  let pos = ref 0 in
  let rec skip () = if !pos < n && (s.[!pos] = ' ' || s.[!pos] = '\t') then (incr pos; skip ()) in
  let rec one () =
    skip ();
    if s.[!pos] = '(' then begin
      incr pos;
      let rec go acc = skip (); if s.[!pos] = ')' then (incr pos; L (List.rev acc)) else go (one () :: acc) in
      go []
    end else begin
      let st = !pos in
      while !pos < n && s.[!pos] <> ' ' && s.[!pos] <> '(' && s.[!pos] <> ')' do incr pos done;
      A (String.sub s st (!pos - st))
    end in
  one ()

let num = function A a -> int_of_string a | _ -> failwith "num"
let idn x = n_of_int (num x)
let binop_of = function
  | "add" -> OAdd | "sub" -> OSub | "mul" -> OMul | "lt" -> OLt | "le" -> OLe | "gt" -> OGt | "ge" -> OGe
  | "eq" -> OEq | "ne" -> ONe | "and" -> OAnd | "or" -> OOr | "min" -> OMin | "max" -> OMax
  | s -> failwith ("binop " ^ s)
let rec pat_of = function
  | A "pw" -> PWild
  | L [A "pv"; x] -> PVar (idn x)
  | L (A "pt" :: ps) -> PTup (List.map pat_of ps)
  | L (A "pr" :: fs) -> PRec (List.map (function L [f; p] -> (idn f, pat_of p) | _ -> failwith "pr") fs)
  | _ -> failwith "pat"
let rec shape_of = function
  | A "N" -> SNum
  | L (A "st" :: shs) -> STup (List.map shape_of shs)
  | L (A "sr" :: fs) -> SRec (List.map (function L [f; sh] -> (idn f, shape_of sh) | _ -> failwith "sr") fs)
  | L (A "ss" :: nm :: cs) -> SSum (idn nm, List.map (function A "-" -> None | sh -> Some (shape_of sh)) cs)
  | _ -> failwith "shape"
let rec mpat_of = function
  | A "mw" -> MWild
  | L [A "ml"; z] -> MLit (z_of_int (num z))
  | L [A "mc"; t] -> MCon (nat_of_int (num t), None)
  | L [A "mc"; t; p] -> MCon (nat_of_int (num t), Some (pat_of p))
  | L (A "mt" :: ms) -> MTup (List.map mpat_of ms)
  | _ -> failwith "mpat"
let rec expr_of = function
  | A "now" -> XNow | A "sr" -> XSr | A "self" -> XSelf
  | L [A "selfs"; sh] -> XSelfS (shape_of sh)
  | L [A "con"; tn; t] -> XCon (idn tn, nat_of_int (num t), None)
  | L [A "con"; tn; t; a] -> XCon (idn tn, nat_of_int (num t), Some (expr_of a))
  | L (A "match" :: sc :: arms) ->
      XMatch (expr_of sc, List.map (function L [m; e] -> (mpat_of m, expr_of e) | _ -> failwith "arm") arms)
  | L [A "lit"; v] -> XLit (z_of_int (num v))
  | L [A "var"; v] -> XVar (idn v)
  | L [A "bin"; A op; a; b] -> XBin (binop_of op, expr_of a, expr_of b)
  | L [A "neg"; a] -> XNeg (expr_of a)
  | L [A "let"; p; a; b] -> XLet (pat_of p, expr_of a, expr_of b)
  | L [A "if"; c; t; e] -> XIf (expr_of c, expr_of t, expr_of e)
  | L [A "mem"; a] -> XMem (expr_of a)
  | L [A "delay"; n; a; t] -> XDelay (idn n, expr_of a, expr_of t)
  | L (A "tup" :: es) -> XTuple (List.map expr_of es)
  | L [A "proj"; e; i] -> XProj (expr_of e, nat_of_int (num i))
  | L (A "rec" :: fs) -> XRecord (List.map fld_of fs)
  | L [A "fld"; e; f] -> XField (expr_of e, idn f)
  | L [A "lam"; L ps; b] -> XLam (List.map idn ps, expr_of b)
  | L (A "app" :: f :: args) -> XApp (expr_of f, List.map expr_of args)
  | L (A "cnamed" :: f :: fs) -> XCallNamed (idn f, List.map fld_of fs)
  | L [A "pipe"; a; f] -> XPipe (expr_of a, expr_of f)
  | L [A "asg"; x; e] -> XAssign (idn x, expr_of e)
  | L [A "seq"; a; b] -> XSeq (expr_of a, expr_of b)
  | _ -> failwith "expr"
and fld_of = function L [f; e] -> (idn f, expr_of e) | _ -> failwith "field"
let gdecl_of = function
  | L [A "fun"; nm; L ps; b] ->
      GFun (idn nm, List.map (function L [x] -> (idn x, None) | L [x; d] -> (idn x, Some (expr_of d)) | _ -> failwith "param") ps,
            expr_of b)
  | L [A "glet"; p; e] -> GLet (pat_of p, expr_of e)
  | _ -> failwith "gdecl"
let prog_of = function
  | L [A "prog"; L (A "globals" :: gs); L (A "inputs" :: ins); L (A "lets" :: ls); L (A "outs" :: os)] ->
      { x_globals = List.map gdecl_of gs;
        x_inputs = List.map idn ins;
        x_lets = List.map (function L [p; e] -> (pat_of p, expr_of e) | _ -> failwith "let") ls;
        x_outs = List.map expr_of os }
  | _ -> failwith "prog"

let ints l = "[" ^ String.concat "," (List.map (fun z -> string_of_int (int_of_z z)) l) ^ "]"

(* does a state tree hold anything besides never-touched cells? *)
let rec has_cell (ST (c, ks)) = (match c with CNone -> false | _ -> true) || List.exists has_cell ks
(* `self` of this body (not of a nested lambda) *)
let rec uses_self = function
  | XSelf -> true
  | XLit _ | XVar _ | XNow | XSr | XLam _ -> false
  | XBin (_, a, b) | XLet (_, a, b) | XDelay (_, a, b) | XPipe (a, b) | XSeq (a, b) -> uses_self a || uses_self b
  | XNeg a | XMem a | XProj (a, _) | XField (a, _) | XAssign (_, a) -> uses_self a
  | XIf (c, t, e) -> uses_self c || uses_self t || uses_self e
  | XTuple es -> List.exists uses_self es
  | XRecord fs | XCallNamed (_, fs) -> List.exists (fun (_, e) -> uses_self e) fs
  | XApp (f, args) -> uses_self f || List.exists uses_self args
  | XSelfS _ -> true
  | XCon (_, _, None) -> false
  | XCon (_, _, Some a) -> uses_self a
  | XMatch (sc, arms) -> uses_self sc || List.exists (fun (_, e) -> uses_self e) arms

let run_case (line : string) : string =
  let bar = String.index line '|' in
  let head = String.trim (String.sub line 0 bar) in
  let body = String.sub line (bar + 1) (String.length line - bar - 1) in
  let hs = List.filter (fun s -> s <> "") (String.split_on_char ' ' head) in
  let hs = List.map int_of_string hs in
  let fuel, n, k, vals = match hs with f :: n :: k :: v -> f, n, k, v | _ -> failwith "head" in
  let vals = Array.of_list vals in
  let rows = List.init n (fun t -> List.init k (fun c -> z_of_int vals.(t * k + c))) in
  let p = prog_of (parse_sx body) in
  let fuel = nat_of_int fuel in
  match xrun_full fuel p rows with
  | OutOfFuel -> "{\"err\":\"fuel\"}"
  | Stuck c -> Printf.sprintf "{\"err\":\"stuck\",\"code\":%d}" (int_of_nat c)
  | Ok ((os, _), w) ->
      let k0 = match xinit_instances fuel p with Ok k -> int_of_nat k | _ -> 0 in
      let dyn = ref false in
      List.iteri (fun i c ->
        if i >= k0 then begin
          let ST (_, ks) = c.ci_state in
          if (match c.ci_state with ST (CNone, []) -> false | _ -> true) && (uses_self c.ci_body || (match ks with kb :: _ -> has_cell kb | [] -> false))
          then dyn := true
        end) w.w_clos;
      Printf.sprintf "{\"ref\":[%s],\"init_instances\":%d,\"instances\":%d,\"dyn_stateful\":%s}"
        (String.concat "," (List.map ints os)) k0 (List.length w.w_clos) (if !dyn then "true" else "false")

let () =
  try
    while true do
      let line = input_line stdin in
      if String.length line > 0 then
        print_endline (try run_case line with Big -> "{\"big\":true}" | Failure m -> "{\"error\":\"" ^ m ^ "\"}"
                                         | Not_found -> "{\"error\":\"no bar\"}" | Invalid_argument m -> "{\"error\":\"" ^ m ^ "\"}")
    done
  with End_of_file -> ()
