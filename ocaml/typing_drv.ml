(* line-protocol driver for the extracted model of the type unifier (coq/theories/Typing/Model.v).
   Same input and output syntax as harness/lang/src/bin/unify_run.rs (see there):
     case   := levels ';' item (';' item)*      item := p<k>=<ty> | u<ty>~<ty> | a<ty>~<ty>
     answer := '#' id ' ' res* '|' (k ':L' level ':P' parent ':R' resolved ':S' substituted ';')*
   Every unify call runs with the fuel the theorem C04_unify_total states (Model.unify_fuel of the current store and the
   two types); an out-of-fuel answer is printed as `fuel`.  `--old` runs the occurs check of before commit 4da95e9. *)
open Typing_model

let rec nat_of_int i = if i <= 0 then O else S (nat_of_int (i - 1))
let rec int_of_nat = function O -> 0 | S n -> 1 + int_of_nat n

exception Bad of string

let parse_ty (s : string) (pos : int ref) : ty =
  let len = String.length s in
  let peek () = if !pos < len then s.[!pos] else '\000' in
  let eat c = if peek () = c then incr pos else raise (Bad (Printf.sprintf "expected %c at %d" c !pos)) in
  let num () =
    let st = !pos in
    while peek () >= '0' && peek () <= '9' do incr pos done;
    if st = !pos then raise (Bad "number expected");
    int_of_string (String.sub s st (!pos - st)) in
  let rec ty () =
    let c = peek () in
    incr pos;
    let one () = eat '('; let t = ty () in eat ')'; t in
    match c with
    | 'U' -> TPrim PUnit | 'I' -> TPrim PInt | 'N' -> TPrim PNumeric | 'S' -> TPrim PString
    | 'K' -> TUnknown
    | 'A' -> TArray (one ()) | 'R' -> TRef (one ()) | 'C' -> TCode (one ()) | 'B' -> TBoxed (one ())
    | 'F' -> eat '('; let a = ty () in eat ','; let r = ty () in eat ')'; TFun (a, r)
    | 'T' ->
        eat '(';
        let rec go acc = let t = ty () in if peek () = ',' then (incr pos; go (t :: acc)) else List.rev (t :: acc) in
        let l = if peek () = ')' then [] else go [] in
        eat ')'; TTuple l
    | 'v' -> TVar (nat_of_int (num ()))
    | _ -> raise (Bad (Printf.sprintf "bad type character at %d" (!pos - 1))) in
  ty ()

let rec show (t : ty) : string =
  match t with
  | TPrim PUnit -> "U" | TPrim PInt -> "I" | TPrim PNumeric -> "N" | TPrim PString -> "S"
  | TUnknown -> "K"
  | TArray a -> "A(" ^ show a ^ ")" | TRef a -> "R(" ^ show a ^ ")" | TCode a -> "C(" ^ show a ^ ")"
  | TBoxed a -> "B(" ^ show a ^ ")"
  | TFun (a, r) -> "F(" ^ show a ^ "," ^ show r ^ ")"
  | TTuple l -> "T(" ^ String.concat "," (List.map show l) ^ ")"
  | TVar v -> "v" ^ string_of_int (int_of_nat v)

let chase_fuel = nat_of_int 2001

let run_case (old : bool) (id : int) (line : string) : string =
  let b = Buffer.create 256 in
  Buffer.add_string b (Printf.sprintf "#%d " id);
  (try
    let items = String.split_on_char ';' line in
    let levels, items = match items with [] -> "", [] | l :: r -> l, r in
    let lv = List.filter (fun x -> String.trim x <> "") (String.split_on_char ',' levels) in
    let st = ref (List.map (fun l -> { c_parent = None; c_level = nat_of_int (int_of_string (String.trim l)) }) lv) in
    let n = List.length lv in
    List.iter (fun it ->
      let it = String.trim it in
      if it <> "" then begin
        let pos = ref 1 in
        (match it.[0] with
         | 'p' ->
             let stp = !pos in
             while !pos < String.length it && it.[!pos] >= '0' && it.[!pos] <= '9' do incr pos done;
             let k = int_of_string (String.sub it stp (!pos - stp)) in
             if !pos >= String.length it || it.[!pos] <> '=' then raise (Bad "expected =");
             incr pos;
             let t = parse_ty it pos in
             if k >= n then raise (Bad "variable out of range");
             st := set_parent !st (nat_of_int k) t
         | 'u' | 'a' ->
             let t1 = parse_ty it pos in
             if !pos >= String.length it || it.[!pos] <> '~' then raise (Bad "expected ~");
             incr pos;
             let t2 = parse_ty it pos in
             let args = it.[0] = 'a' in
             let fuel = unify_fuel !st t1 t2 in
             let r = if old then unify_old fuel args !st t1 t2 else unify fuel args !st t1 t2 in
             (match r with
              | UOk (s', rel) ->
                  st := s';
                  Buffer.add_string b (match rel with Subtype -> "ok0 " | Identical -> "ok1 " | Supertype -> "ok2 ")
              | UErr (s', es) ->
                  st := s';
                  Buffer.add_string b "err";
                  List.iter (fun e -> Buffer.add_string b (match e with ETypeMismatch -> "0" | ELengthMismatch -> "1" | ECircularType -> "2")) es;
                  Buffer.add_char b ' '
              | UFuel -> Buffer.add_string b "fuel ")
         | _ -> raise (Bad ("bad item " ^ it)));
        if !pos <> String.length it then raise (Bad ("trailing input in item " ^ it))
      end) items;
    Buffer.add_char b '|';
    for k = 0 to n - 1 do
      let v = nat_of_int k in
      let ps = match parent !st v with Some p -> show p | None -> "-" in
      let rs, finite = match resolve chase_fuel !st (TVar v) with Some r -> show r, true | None -> "!cycle", false in
      let ss = if finite then (match substitute_type chase_fuel !st (TVar v) with Some r -> show r | None -> "!fuel") else "!skipped" in
      Buffer.add_string b (Printf.sprintf "%d:L%d:P%s:R%s:S%s;" k (int_of_nat (level !st v)) ps rs ss)
    done
  with Bad m -> Buffer.add_string b (" !input-error " ^ m)
     | Failure m -> Buffer.add_string b (" !input-error " ^ m));
  Buffer.contents b

let () =
  let old = Array.exists (fun a -> a = "--old") Sys.argv in
  let id = ref 0 in
  try
    while true do
      let line = input_line stdin in
      print_endline (run_case old !id (String.trim line));
      incr id
    done
  with End_of_file -> ()
