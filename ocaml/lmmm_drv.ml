(* line-protocol driver for the extracted Lmmm model.
   input line:  N K v(0,0) ... v(N-1,K-1) | <program s-expr>
   output line: JSON object (see below) *)
open Lmmm_model
let rec p_of_int i = if i = 1 then XH else if i land 1 = 0 then XO (p_of_int (i / 2)) else XI (p_of_int (i / 2))
let n_of_int i = if i = 0 then N0 else Npos (p_of_int i)
let z_of_int i = if i = 0 then Z0 else if i > 0 then Zpos (p_of_int i) else Zneg (p_of_int (-i))
exception Big
let rec int_of_p d = function
  | XH -> 1
  | XO p -> if d > 60 then raise Big else 2 * int_of_p (d + 1) p
  | XI p -> if d > 60 then raise Big else 2 * int_of_p (d + 1) p + 1
let int_of_n = function N0 -> 0 | Npos p -> int_of_p 0 p
let int_of_z = function Z0 -> 0 | Zpos p -> int_of_p 0 p | Zneg p -> - (int_of_p 0 p)
let rec nat_of_int i = if i = 0 then O else S (nat_of_int (i - 1))

(* ---- s-expressions ---- *)
type sx = A of string | L of sx list
let parse_sx (s : string) : sx =
  let n = String.length s in
  let pos = ref 0 in
  let rec skip () = if !pos < n && (s.[!pos] = ' ' || s.[!pos] = '\t') then (incr pos; skip ()) in
  let rec one () =
    skip ();
    if s.[!pos] = '(' then begin
      incr pos;
      let rec go acc = skip (); if s.[!pos] = ')' then (incr pos; L (List.rev acc)) else go (one () :: acc) in
      go []
    end else begin
      let st = !pos in
      while !pos < n && s.[!pos] <> ' ' && s.[!pos] <> '(' && s.[!pos] <> ')' do incr pos done;
      A (String.sub s st (!pos - st))
    end in
  one ()

let num = function A a -> int_of_string a | _ -> failwith "num"
let binop_of = function
  | "add" -> OAdd | "sub" -> OSub | "mul" -> OMul | "lt" -> OLt | "le" -> OLe | "gt" -> OGt | "ge" -> OGe
  | "eq" -> OEq | "ne" -> ONe | "and" -> OAnd | "or" -> OOr | "min" -> OMin | "max" -> OMax
  | s -> failwith ("binop " ^ s)
let rec expr_of = function
  | A "now" -> ENow | A "sr" -> ESr | A "self" -> ESelf
  | L [A "lit"; v] -> ELit (z_of_int (num v))
  | L [A "var"; v] -> EVar (n_of_int (num v))
  | L [A "bin"; A op; a; b] -> EBin (binop_of op, expr_of a, expr_of b)
  | L [A "neg"; a] -> ENeg (expr_of a)
  | L [A "let"; x; a; b] -> ELet (n_of_int (num x), expr_of a, expr_of b)
  | L [A "if"; c; t; e] -> EIf (expr_of c, expr_of t, expr_of e)
  | L (A "call" :: f :: args) -> ECall (n_of_int (num f), List.map expr_of args)
  | L [A "mem"; a] -> EMem (expr_of a)
  | L [A "delay"; n; a; t] -> EDelay (n_of_int (num n), expr_of a, expr_of t)
  | _ -> failwith "expr"
let prog_of = function
  | L [A "prog"; L (A "funs" :: fs); L (A "inputs" :: ins); L (A "lets" :: ls); L (A "outs" :: os)] ->
      { p_funs = List.map (function L [A "fun"; nm; L ps; b] ->
                     { f_name = n_of_int (num nm); f_params = List.map (fun p -> n_of_int (num p)) ps; f_body = expr_of b }
                   | _ -> failwith "fun") fs;
        p_inputs = List.map (fun i -> n_of_int (num i)) ins;
        p_lets = List.map (function L [x; e] -> (n_of_int (num x), expr_of e) | _ -> failwith "let") ls;
        p_outs = List.map expr_of os }
  | _ -> failwith "prog"

let rec show_skel = function
  | Delay n -> "D" ^ string_of_int (int_of_n n)
  | Mem n -> "M" ^ string_of_int (int_of_n n)
  | Feed n -> "E" ^ string_of_int (int_of_n n)
  | FnCall cs -> "[" ^ String.concat " " (List.map show_skel cs) ^ "]"

let ints l = "[" ^ String.concat "," (List.map (fun z -> string_of_int (int_of_z z)) l) ^ "]"

(* SWAP line:  SWAP N1 N2 K v.. (N1+N2 rows) | <old prog> | <new prog>
   answer: {"swap":"ok"|"panic"|"nocompile","old_skel":..,"new_skel":..,"vm":[samples after the swap]} *)
let run_swap (line : string) : string =
  let parts = String.split_on_char '|' line in
  match parts with
  | [head; b1; b2] ->
      let hs = List.filter (fun s -> s <> "") (String.split_on_char ' ' (String.trim head)) in
      let hs = List.map int_of_string (List.tl hs) in
      let n1, n2, k, vals = match hs with a :: b :: c :: v -> a, b, c, v | _ -> failwith "head" in
      let row t = List.init k (fun c -> z_of_int (List.nth vals (t * k + c))) in
      let rows1 = List.init n1 row in
      let rows2 = List.init n2 (fun t -> row (n1 + t)) in
      let p1 = prog_of (parse_sx b1) and p2 = prog_of (parse_sx b2) in
      (match compile p1, compile p2 with
       | Some cp1, Some cp2 ->
           let sk1 = show_skel (published_skeleton cp1) and sk2 = show_skel (published_skeleton cp2) in
           (match swap_run VmD p1 cp1 p2 cp2 rows1 rows2 with
            | None -> Printf.sprintf "{\"swap\":\"panic\",\"old_skel\":\"%s\",\"new_skel\":\"%s\"}" sk1 sk2
            | Some rs ->
                let body = String.concat "," (List.map (function
                  | None -> "null"
                  | Some (((o, w), pos), _) -> Printf.sprintf "{\"out\":%s,\"words\":%s,\"pos\":%d}" (ints o) (ints w) (int_of_n pos)) rs) in
                Printf.sprintf "{\"swap\":\"ok\",\"old_skel\":\"%s\",\"new_skel\":\"%s\",\"vm\":[%s]}" sk1 sk2 body)
       | _ -> "{\"swap\":\"nocompile\"}")
  | _ -> failwith "swap line"

let run_case (line : string) : string =
  if String.length line > 4 && String.sub line 0 4 = "SWAP" then run_swap line else
  let bar = String.index line '|' in
  let head = String.trim (String.sub line 0 bar) in
  let body = String.sub line (bar + 1) (String.length line - bar - 1) in
  let hs = List.filter (fun s -> s <> "") (String.split_on_char ' ' head) in
  let hs = List.map int_of_string hs in
  let n, k, vals = match hs with n :: k :: v -> n, k, v | _ -> failwith "head" in
  let rows = List.init n (fun t -> List.init k (fun c -> z_of_int (List.nth vals (t * k + c)))) in
  let p = prog_of (parse_sx body) in
  let wf = if wf_prog p then "true" else "false" in
  match compile p with
  | None -> "{\"compiled\":false,\"wf\":" ^ wf ^ "}"
  | Some cp ->
      let skel = show_skel (published_skeleton cp) in
      let refr = match ref_run p Z0 rows st0 with
        | Some (os, _) -> "[" ^ String.concat "," (List.map ints os) ^ "]"
        | None -> "null" in
      let mach d =
        let rs = mach_run d p cp Z0 rows m0 in
        "[" ^ String.concat "," (List.map (function
          | None -> "null"
          | Some (((o, w), pos), tr) ->
              Printf.sprintf "{\"out\":%s,\"words\":%s,\"pos\":%d,\"trace\":[%s]}" (ints o) (ints w) (int_of_n pos)
                (String.concat "," (List.map (fun ((kk, pp), ss) -> Printf.sprintf "[%d,%d,%d]" (int_of_n kk) (int_of_n pp) (int_of_n ss)) tr))) rs) ^ "]" in
      Printf.sprintf "{\"compiled\":true,\"wf\":%s,\"skel\":\"%s\",\"ref\":%s,\"vm\":%s,\"wasm\":%s}" wf skel refr (mach VmD) (mach WasmD)

let () =
  try
    while true do
      let line = input_line stdin in
      if String.length line > 0 then
        print_endline (try run_case line with Big -> "{\"big\":true}" | Failure m -> "{\"error\":\"" ^ m ^ "\"}")
    done
  with End_of_file -> ()
