(* line-protocol driver for the extracted model of lower.rs (Lower/Model*.v).
   input  line: "<tokens>\t<tree>"
                tokens = the raw token list as parse_cst returns it, "Kind:start:len:hex-of-text" joined by ','
                         (Kind = Debug name of the TokenKind after the parser's rewrites); empty = no token
                tree   = the CST as an s-expression "(Kind child ..)", token leaves = raw token indices
                A line starting with "#<number> " runs with that fuel instead of lower_fuel(tree) = 2 * tsize(tree).
                A line "?tables" prints the kind classes of the model (is_expr_kind, is_pattern_kind, is_type_kind, binary operators).
   output line: the Program as an s-expression (the format of harness/lang/src/bin/lower_run.rs), or "FUEL" / "PANIC <why>" *)
open Lower_model
let string_of_chars (l : char list) = let b = Buffer.create 16 in List.iter (Buffer.add_char b) l; Buffer.contents b
let chars_of_string (s : string) = List.init (String.length s) (String.get s)
let rec int_of_nat_acc acc = function O -> acc | S m -> int_of_nat_acc (acc + 1) m
let int_of_nat n = int_of_nat_acc 0 n
let nat_of_int i = let rec go acc i = if i = 0 then acc else go (S acc) (i - 1) in go O i
let rec pos_of_int i = if i = 1 then XH else if i land 1 = 0 then XO (pos_of_int (i lsr 1)) else XI (pos_of_int (i lsr 1))
let n_of_int i = if i = 0 then N0 else Npos (pos_of_int i)
let rec int_of_pos = function XH -> 1 | XO p -> 2 * int_of_pos p | XI p -> 2 * int_of_pos p + 1
let int_of_n = function N0 -> 0 | Npos p -> int_of_pos p
(* -(p) as an Int64 (down to -2^63) *)
let rec neg64_of_pos = function
  | XH -> (-1L) | XO p -> Int64.mul 2L (neg64_of_pos p) | XI p -> Int64.sub (Int64.mul 2L (neg64_of_pos p)) 1L
let string_of_z = function
  | Z0 -> "0" | Zneg p -> Int64.to_string (neg64_of_pos p) | Zpos p -> Int64.to_string (Int64.neg (neg64_of_pos p))

let kname = let tbl = Hashtbl.create 128 in
  fun k -> match Hashtbl.find_opt tbl k with Some s -> s | None -> let s = string_of_chars (kind_name k) in Hashtbl.add tbl k s; s
let kind_of_name = let tbl = Hashtbl.create 128 in
  List.iter (fun k -> Hashtbl.replace tbl (kname k) k) all_kinds;
  fun s -> match Hashtbl.find_opt tbl s with Some k -> k | None -> failwith ("unknown token kind " ^ s)
let sname k = string_of_chars (syntax_name k)
let syntax_of_name = let tbl = Hashtbl.create 128 in
  List.iter (fun k -> Hashtbl.replace tbl (sname k) k) all_syntax_kinds;
  fun s -> match Hashtbl.find_opt tbl s with Some k -> k | None -> failwith ("unknown syntax kind " ^ s)

let unhex (s : string) : string =
  let n = String.length s / 2 in
  String.init n (fun i -> Char.chr (int_of_string ("0x" ^ String.sub s (2 * i) 2)))

let parse_tokens (s : string) : tokinfo array =
  if s = "" then [||] else
  Array.of_list (List.map (fun item ->
      match String.split_on_char ':' item with
      | [k; st; ln; tx] ->
          { t_kind = kind_of_name k; t_start = n_of_int (int_of_string st); t_len = n_of_int (int_of_string ln);
            t_text = chars_of_string (unhex tx) }
      | _ -> failwith ("bad token " ^ item))
    (String.split_on_char ',' s))

(* s-expression of the CST *)
let parse_tree (s : string) : tree =
  let n = String.length s in
  let pos = ref 0 in
  let skip () = while !pos < n && s.[!pos] = ' ' do incr pos done in
  let word () = let st = !pos in
    while !pos < n && s.[!pos] <> ' ' && s.[!pos] <> '(' && s.[!pos] <> ')' do incr pos done;
    String.sub s st (!pos - st) in
  let rec node () =
    skip ();
    if !pos < n && s.[!pos] = '(' then begin
      incr pos;
      let k = syntax_of_name (word ()) in
      let ch = ref [] in
      skip ();
      while !pos < n && s.[!pos] <> ')' do ch := node () :: !ch; skip () done;
      incr pos;
      TNode (k, List.rev !ch)
    end else TTok (nat_of_int (int_of_string (word ())))
  in node ()

(* ---- printing (the format of lower_run.rs) ---- *)
let b = Buffer.create 65536
let ps s = Buffer.add_string b s
let pc c = Buffer.add_char b c
let p_str (l : char list) =
  pc '\'';
  List.iter (fun c ->
      if (c >= 'a' && c <= 'z') || (c >= 'A' && c <= 'Z') || (c >= '0' && c <= '9') || c = '_' then pc c
      else ps (Printf.sprintf "%%%02X" (Char.code c))) l
let p_span sp = ps (string_of_int (int_of_n sp.s_start)); pc '-'; ps (string_of_int (int_of_n sp.s_end))
let p_loc l = pc (if l.l_file then '@' else '~'); p_span l.l_span
let p_lit = function
  | LString s -> ps "(LString "; p_str s; pc ')'
  | LInt z -> ps "(LInt "; ps (string_of_z z); pc ')'
  | LFloat s -> ps "(LFloat "; p_str s; pc ')'
  | LSelf -> ps "LSelf" | LNow -> ps "LNow" | LSampleRate -> ps "LSampleRate" | LPlaceHolder -> ps "LPlaceHolder"
let p_op = function
  | OSum -> ps "Sum" | OMinus -> ps "Minus" | OProduct -> ps "Product" | ODivide -> ps "Divide" | OEqual -> ps "Equal"
  | ONotEqual -> ps "NotEqual" | OLessThan -> ps "LessThan" | OLessEqual -> ps "LessEqual" | OGreaterThan -> ps "GreaterThan"
  | OGreaterEqual -> ps "GreaterEqual" | OModulo -> ps "Modulo" | OExponent -> ps "Exponent" | OAnd -> ps "And" | OOr -> ps "Or"
  | OAt -> ps "At" | OPipe -> ps "Pipe" | OPipeMacro -> ps "PipeMacro"
  | OUnknown s -> ps "(Unknown "; p_str s; pc ')'
let head name l = pc '('; ps name; pc ' '; p_loc l
let rec p_type (Ty (n, l)) =
  (match n with
   | TPrimitive p -> head "TPrim" l; ps (match p with PUnit -> " unit" | PInt -> " int" | PNumeric -> " float" | PString -> " string")
   | TArray t -> head "TArray" l; pc ' '; p_type t
   | TTuple ts -> head "TTuple" l; List.iter (fun t -> pc ' '; p_type t) ts
   | TRecord fs -> head "TRecord" l;
       List.iter (fun ((k, t), d) -> ps " (F "; p_str k; pc ' '; p_type t; ps (if d then " t)" else " f)")) fs
   | TFunction (a, r) -> head "TFn" l; pc ' '; p_type a; pc ' '; p_type r
   | TCode t -> head "TCode" l; pc ' '; p_type t
   | TUnion ts -> head "TUnion" l; List.iter (fun t -> pc ' '; p_type t) ts
   | TTypeAlias s -> head "TAlias" l; pc ' '; p_str s
   | TUnknown -> head "TUnknown" l);
  pc ')'
let rec p_pat = function
  | PSingle s -> ps "(PSingle "; p_str s; pc ')'
  | PPlaceholder -> ps "PPlaceholder"
  | PTuple l -> ps "(PTuple"; List.iter (fun p -> pc ' '; p_pat p) l; pc ')'
  | PRecord items -> ps "(PRecord"; List.iter (fun (k, v) -> ps " (I "; p_str k; pc ' '; p_pat v; pc ')') items; pc ')'
  | PError -> ps "PError"
let rec p_mpat = function
  | MLiteral l -> ps "(MLit "; p_lit l; pc ')'
  | MWildcard -> ps "MWild"
  | MVariable s -> ps "(MVar "; p_str s; pc ')'
  | MConstructor (s, inner) -> ps "(MCons "; p_str s; pc ' '; (match inner with Some i -> p_mpat i | None -> pc '-'); pc ')'
  | MTuple l -> ps "(MTuple"; List.iter (fun p -> pc ' '; p_mpat p) l; pc ')'
let rec p_expr (Ex (n, l)) =
  let h name = head name l in
  (match n with
   | NLiteral lit -> h "Lit"; pc ' '; p_lit lit
   | NVar s -> h "Var"; pc ' '; p_str s
   | NQualifiedVar segs -> h "QVar"; List.iter (fun s -> pc ' '; p_str s) segs
   | NBlock e -> h "Block"; pc ' '; p_oexpr e
   | NTuple es -> h "Tuple"; p_exprs es
   | NProj (e, i) -> h "Proj"; pc ' '; p_expr e; pc ' '; ps (string_of_z i)
   | NArrayAccess (a, i) -> h "ArrayAccess"; pc ' '; p_expr a; pc ' '; p_expr i
   | NArrayLiteral es -> h "Array"; p_exprs es
   | NRecordLiteral fs -> h "Record"; p_fields fs
   | NImcompleteRecord fs -> h "IncRecord"; p_fields fs
   | NRecordUpdate (e, fs) -> h "RecUpdate"; pc ' '; p_expr e; p_fields fs
   | NFieldAccess (e, f) -> h "Field"; pc ' '; p_expr e; pc ' '; p_str f
   | NApply (f, args) -> h "Apply"; pc ' '; p_expr f; ps " (A"; p_exprs args; pc ')'
   | NMacroExpand (f, args) -> h "Macro"; pc ' '; p_expr f; ps " (A"; p_exprs args; pc ')'
   | NBinOp (a, o, sp, r) -> h "BinOp"; pc ' '; p_op o; pc ' '; p_span sp; pc ' '; p_expr a; pc ' '; p_expr r
   | NUniOp (o, sp, e) -> h "UniOp"; pc ' '; p_op o; pc ' '; p_span sp; pc ' '; p_expr e
   | NParen e -> h "Paren"; pc ' '; p_expr e
   | NLambda (params, rt, body) ->
       h "Lambda"; ps " (P"; List.iter (fun p -> pc ' '; p_tid p) params; ps ") ";
       (match rt with Some t -> p_type t | None -> pc '-'); pc ' '; p_expr body
   | NAssign (a, r) -> h "Assign"; pc ' '; p_expr a; pc ' '; p_expr r
   | NThen (a, t) -> h "Then"; pc ' '; p_expr a; pc ' '; p_oexpr t
   | NFeed (s, e) -> h "Feed"; pc ' '; p_str s; pc ' '; p_expr e
   | NLet (tp, e, t) -> h "Let"; pc ' '; p_tpat tp; pc ' '; p_expr e; pc ' '; p_oexpr t
   | NLetRec (id, e, t) -> h "LetRec"; pc ' '; p_tid id; pc ' '; p_expr e; pc ' '; p_oexpr t
   | NIf (c, t, e) -> h "If"; pc ' '; p_expr c; pc ' '; p_expr t; pc ' '; p_oexpr e
   | NMatch (s, arms) -> h "Match"; pc ' '; p_expr s;
       List.iter (fun (p, body) -> ps " (Arm "; p_mpat p; pc ' '; p_expr body; pc ')') arms
   | NBracket e -> h "Bracket"; pc ' '; p_expr e
   | NEscape e -> h "Escape"; pc ' '; p_expr e
   | NError -> h "Error");
  pc ')'
and p_oexpr = function Some e -> p_expr e | None -> pc '-'
and p_exprs es = List.iter (fun e -> pc ' '; p_expr e) es
and p_fields fs = List.iter (fun (k, e) -> ps " (F "; p_str k; pc ' '; p_expr e; pc ')') fs
and p_tid (TId (id, ty, d)) = ps "(TId "; p_str id; pc ' '; p_type ty; pc ' '; p_oexpr d; pc ')'
and p_tpat (TPat (p, ty, d)) = ps "(TPat "; p_pat p; pc ' '; p_type ty; pc ' '; p_oexpr d; pc ')'
let p_stage = function StPersistent -> ps "persistent" | StMacro -> ps "macro" | StMain -> ps "main"
let p_stmt = function
  | StmLet (tp, e) -> ps "(SLet "; p_tpat tp; pc ' '; p_expr e; pc ')'
  | StmLetRec (id, e) -> ps "(SLetRec "; p_tid id; pc ' '; p_expr e; pc ')'
  | StmAssign (a, r) -> ps "(SAssign "; p_expr a; pc ' '; p_expr r; pc ')'
  | StmSingle e -> ps "(SSingle "; p_expr e; pc ')'
  | StmDeclareStage k -> ps "(SStage "; p_stage k; pc ')'
  | StmError -> ps "SError"
let p_vis = function VPublic -> ps "pub" | VPrivate -> ps "priv"
let rec p_pstmt = function
  | PFnDefinition (v, name, args, al, rt, body) ->
      ps "(Fn "; p_vis v; pc ' '; p_str name; ps " (P"; List.iter (fun a -> pc ' '; p_tid a) args; ps ") "; p_loc al; pc ' ';
      (match rt with Some t -> p_type t | None -> pc '-'); pc ' '; p_expr body; pc ')'
  | PStageDeclaration k -> ps "(Stage "; p_stage k; pc ')'
  | PGlobalStatement s -> ps "(Global "; p_stmt s; pc ')'
  | PImport s -> ps "(Import "; p_str s; pc ')'
  | PModuleDefinition (v, name, body) ->
      ps "(Mod "; p_vis v; pc ' '; p_str name; pc ' ';
      (match body with Some l -> ps "(B"; p_stmts l; pc ')' | None -> pc '-'); pc ')'
  | PUseStatement (v, path, target) ->
      ps "(Use "; p_vis v; ps " (Path"; List.iter (fun s -> pc ' '; p_str s) path; ps ") ";
      (match target with
       | UTSingle -> ps "Single" | UTWildcard -> ps "Wildcard"
       | UTMultiple names -> ps "(Multiple"; List.iter (fun s -> pc ' '; p_str s) names; pc ')');
      pc ')'
  | PTypeAlias (v, name, t) -> ps "(TypeAlias "; p_vis v; pc ' '; p_str name; pc ' '; p_type t; pc ')'
  | PTypeDeclaration (v, name, variants, isrec) ->
      ps "(TypeDecl "; p_vis v; pc ' '; p_str name;
      List.iter (fun (n, payload) -> ps " (V "; p_str n; pc ' '; (match payload with Some t -> p_type t | None -> pc '-'); pc ')') variants;
      ps (if isrec then " rec)" else " norec)")
  | PStmtError -> ps "PStmtError"
and p_stmts l = List.iter (fun (s, sp) -> ps " (St "; p_pstmt s; pc ' '; p_span sp; pc ')') l
let p_program p = ps "(Program"; p_stmts p; pc ')'

let tables () =
  let names p = String.concat "," (List.map sname (List.filter p all_syntax_kinds)) in
  ps "expr="; ps (names is_expr_kind); ps " pattern="; ps (names is_pattern_kind); ps " type="; ps (names is_type_kind);
  ps " binop=";
  ps (String.concat "," (List.filter_map (fun k -> match binop_of_kind k with
      | Some _ -> Some (kname k) | None -> None) all_kinds))

let () =
  (try
    while true do
      let line = input_line stdin in
      if line = "?tables" then tables ()
      else begin
        let fuel, line =
          if String.length line > 0 && line.[0] = '#' then
            (match String.index_opt line ' ' with
             | Some i -> (Some (int_of_string (String.sub line 1 (i - 1))), String.sub line (i + 1) (String.length line - i - 1))
             | None -> (None, line))
          else (None, line) in
        (match String.index_opt line '\t' with
         | None -> ps "BADINPUT"
         | Some i ->
             let toks = parse_tokens (String.sub line 0 i) in
             let tree = parse_tree (String.sub line (i + 1) (String.length line - i - 1)) in
             let table (n : nat) : tokinfo option =
               let k = int_of_nat n in if k < Array.length toks then Some toks.(k) else None in
             let r = match fuel with None -> lower table tree | Some f -> lower_with (nat_of_int f) table tree in
             (match r with
              | Ok p -> p_program p
              | Panic w -> ps "PANIC "; ps (string_of_chars w)
              | OutOfFuel -> ps "FUEL"))
      end;
      pc '\n';
      if Buffer.length b > 60000 then (print_string (Buffer.contents b); Buffer.clear b)
    done
  with End_of_file -> ());
  print_string (Buffer.contents b)
