(* line-protocol driver for the extracted heap / closure store model (Heap/Model.v), property C12.
   input line:
     T <path>     replay the H2 event file <path> (written by harness bin heap_run_h2) through the extracted
                  monitor step `mstep`, starting from `mach_new`.  File lines:
                     E <kind> <idx> <version> <rc>      one hook event (rc 18446744073709551615 = H2_INVALID)
                     S <t> <closures.len> <heap.len>    end of segment t (real lengths; ignored here, echoed by python)
     O <tok> ...  run heap operations on one store through `hrun` from `sm_new`:
                     a:<w> alloc with data [w] | r:<i>:<v> retain | d:<i>:<v> release | l:<i>:<v> load | s:<i>:<v>:<w> store
   output line:
     T ok|reject:<event index>:<kind>:<idx>:<ver>:<rc>|unsettled:<t> ; <t>:<model closures>:<model heap>:<settled>:<ca>:<cf>:<ha>:<hf> ...
          one item per completed segment; ca/cf/ha/hf = alloc / free events of the closure / heap store in the segment
          (counted by the extracted `count_op`)
     O <res> ... len=<n>      res: k:<i>:<v> | c:<n> | x:<w,...> | u | i *)
open Heap_model

let rec p_of_int i = if i = 1 then XH else if i land 1 = 0 then XO (p_of_int (i / 2)) else XI (p_of_int (i / 2))
let n_of_int i = if i = 0 then N0 else Npos (p_of_int i)
let rec int_of_p = function XH -> 1 | XO p -> 2 * int_of_p p | XI p -> 2 * int_of_p p + 1
let int_of_n = function N0 -> 0 | Npos p -> int_of_p p

let split c s = List.filter (fun x -> x <> "") (String.split_on_char c s)
let invalid_tok = "18446744073709551615"

(* the decoding of a logged record is the extracted [event_of_tuple]; u64::MAX does not fit an OCaml int, so the
   INVALID refcount is built from its 64 one-bits *)
let rec ones k = if k = 1 then XH else XI (ones (k - 1))
let n_of_rc rc = if rc = invalid_tok then Npos (ones 64) else n_of_int (int_of_string rc)
let event_of kind idx ver rc =
  match event_of_tuple (n_of_int kind) (n_of_int idx) (n_of_int ver) (n_of_rc rc) with
  | Some e -> e
  | None -> failwith "bad event kind"

(* ---- replay of an event file ----
   Every event goes through the extracted monitor step [mstep].  In addition, when an event marks the entry of a
   closure-layer operation of vm.rs (marks 0..5), the extracted transcription of that operation (Heap/Model.v) is run
   from the current model state; the events it emits must be, one by one, the next events of the real log, and the
   state it returns must be the state [mrun] reaches on them (conformance of the real operation with the model).
   The raw values of closure-typed upvalue cells, which the model takes as an input, are the `ref` events of the log. *)
type item = Ev of event * string | Seg of string

let load path =
  let ic = open_in path in
  let acc = ref [] in
  (try
     while true do
       match split ' ' (input_line ic) with
       | [ "E"; kind; i; v; rc ] ->
           acc := Ev (event_of (int_of_string kind) (int_of_string i) (int_of_string v) rc,
                      Printf.sprintf "%s:%s:%s:%s" kind i v rc) :: !acc
       | "S" :: t :: _ -> acc := Seg t :: !acc
       | _ -> ()
     done
   with End_of_file -> ());
  close_in ic;
  Array.of_list (List.rev !acc)

let shl32 n = N.shiftl n (n_of_int 32)
let raw_of_split (k : key) = N.coq_lor (shl32 k.kver) k.kidx     (* the hook splits a raw word into (low, high) *)

(* upvalue oracle for the operation starting at position i: the `ref` events that follow the first later
   drop_closure / close_upvalues_by_idx mark of each closure *)
let build_up (items : item array) i : key -> n list =
  let tbl : (key * n list ref) list ref = ref [] in
  let cur : n list ref option ref = ref None in
  let j = ref i in
  let stop = ref false in
  while not !stop && !j < Array.length items && !j < i + 20000 do
    (match items.(!j) with
     | Seg _ -> stop := true
     | Ev (e, _) ->
         (match e.e_op with
          | EMark n when (int_of_n n = 0 || int_of_n n = 2) ->
              if List.exists (fun (k, _) -> k = e.e_key) !tbl then cur := None
              else begin
                let r = ref [] in
                tbl := (e.e_key, r) :: !tbl;
                cur := Some r
              end
          | ERef -> (match !cur with Some r -> r := raw_of_split e.e_key :: !r | None -> ())
          | _ -> ()));
    incr j
  done;
  fun k -> match List.find_opt (fun (k', _) -> k' = k) !tbl with Some (_, r) -> List.rev !r | None -> []

let rec nat_of_int i = if i = 0 then O else S (nat_of_int (i - 1))
let fuel = nat_of_int 4000

let show_event (e : event) =
  let st = match e.e_store with SH -> 0 | SC -> 0x10 in
  let op = match e.e_op with
    | EAlloc -> 0 | ERetain -> 1 | ERelease -> 2 | EFree -> 3 | EUse -> 4 | EProbe -> 5 | EClose -> 6 | ERef -> 7
    | EMark n -> 0x20 lor int_of_n n in
  Printf.sprintf "%d:%d:%d:%s" (if op land 0x20 <> 0 then op else st lor op) (int_of_n e.e_key.kidx) (int_of_n e.e_key.kver)
    (match e.e_rc with Some n -> (try string_of_int (int_of_n n) with _ -> "big") | None -> "INVALID")

(* development aid (evaluating candidate fixes of the VM, whose operations then differ from the transcription on
   purpose): HEAP_DRV_PLAIN=1 switches the operation conformance off and leaves the monitor *)
let plain_only = (try Sys.getenv "HEAP_DRV_PLAIN" = "1" with Not_found -> false)

let replay_file path =
  let items = load path in
  let n = Array.length items in
  let m = ref mach_new in
  let segs = Buffer.create 256 in
  let status = ref "ok" in
  let evidx = ref 0 in
  let seg_events = ref [] in
  let ops_checked = ref 0 in
  let i = ref 0 in
  let step_plain e txt =
    match mstep !m e with
    | Some m' -> m := m'; seg_events := e :: !seg_events; true
    | None -> status := Printf.sprintf "reject:%d:%s" !evidx txt; false in
  while !status = "ok" && !i < n do
    (match items.(!i) with
     | Seg t ->
         let evs = List.rev !seg_events in
         let c w o = int_of_n (count_op w o evs) in
         let st = settled !m in
         Buffer.add_string segs
           (Printf.sprintf " %s:%d:%d:%d:%d:%d:%d:%d" t (int_of_n (live_count !m SC)) (int_of_n (live_count !m SH))
              (if st then 1 else 0) (c SC EAlloc) (c SC EFree) (c SH EAlloc) (c SH EFree));
         seg_events := [];
         if not st then status := "unsettled:" ^ t
         else if not plain_only && not (no_dangling !m) then begin
           (* name one dangling wrapper for the report *)
           let bad = ref "" in
           List.iteri (fun idx (sl : obj slot) ->
             match sl.sval with
             | Some o -> (match o.odata with
                 | c :: _ ->
                     let ck = key_of_raw c in
                     if !bad = "" && not (live !m SC ck) && stale !m.m_cl ck then
                       bad := Printf.sprintf "%d:%d:%d:%d" idx (int_of_n sl.sver) (int_of_n ck.kidx) (int_of_n ck.kver)
                 | [] -> ())
             | None -> ()) !m.m_hp.slots;
           status := Printf.sprintf "dangling:%s:%s" t !bad
         end;
         incr i
     | Ev (e, txt) ->
         let predicted =
           match e.e_op with
           | EMark _ when plain_only -> None
           | EMark mk ->
               let up = build_up items !i in
               (match int_of_n mk with
                | 0 -> Some (drop_closure fuel up !m e.e_key)
                | 1 -> Some (release_heap_closure fuel up !m e.e_key)
                | 2 -> Some (close_upvalues_by_idx up !m e.e_key)
                | 3 -> let (m', evs) = clone_heap !m (raw_of_split e.e_key) in Some (Ok (m', evs))
                | 4 -> Some (close_heap_closure up !m (raw_of_split e.e_key))
                | 5 -> let ((m', _), evs) = allocate_heap_closure !m e.e_key.kidx in Some (Ok (m', evs))
                | _ -> None)
           | _ -> None in
         (match predicted with
          | None -> if step_plain e txt then (incr i; incr evidx)
          | Some outcome ->
              let (evs, final) =
                match outcome with
                | Ok (m', evs) -> (evs, Some m')
                | Panicked evs -> (evs, None)
                | OutOfFuel -> ([], None) in
              if evs = [] then status := Printf.sprintf "conform:%d:%s:fuel" !evidx txt
              else begin
                (* the model's events against the next real events *)
                let k = ref 0 in
                List.iter (fun (pe : event) ->
                  if !status = "ok" then begin
                    (match (if !i + !k < n then Some items.(!i + !k) else None) with
                     | Some (Ev (re, rtxt)) ->
                         if re <> pe then
                           status := Printf.sprintf "conform:%d:%s:offset%d:model=%s:real=%s" !evidx txt !k (show_event pe) rtxt
                     | _ -> status := Printf.sprintf "conform:%d:%s:offset%d:model=%s:real=end" !evidx txt !k (show_event pe));
                    incr k
                  end) evs;
                if !status = "ok" then begin
                  (* the monitor on the same events *)
                  let before = !m in
                  let okm = ref true in
                  List.iter (fun pe -> if !okm then begin
                    (match mstep !m pe with
                     | Some m' -> m := m'; seg_events := pe :: !seg_events
                     | None -> okm := false;
                         status := Printf.sprintf "reject:%d:%s" !evidx (show_event pe));
                    if !okm then incr evidx end) evs;
                  ignore before;
                  (* [mstep] does not know the words of a heap object (the model operation does: the wrapper of a
                     closure holds the raw ClosureIdx); compare the two states without them and keep the richer one *)
                  let strip (s : store) : store =
                    { s with slots = List.map (fun sl -> { sl with sval = (match sl.sval with
                        | Some o -> Some { o with odata = [] } | None -> None) }) s.slots } in
                  (match final with
                   | Some m' when !okm ->
                       if strip !m.m_cl <> strip m'.m_cl || strip !m.m_hp <> strip m'.m_hp
                       then status := Printf.sprintf "conform:%d:%s:state" !evidx txt
                       else m := m'
                   | _ -> ());
                  incr ops_checked;
                  i := !i + List.length evs
                end
              end))
  done;
  Printf.printf "T %s ;%s ; ops=%d\n" !status (Buffer.contents segs) !ops_checked

let key_of i v = { kidx = n_of_int (int_of_string i); kver = n_of_int (int_of_string v) }

let run_ops toks =
  let ops = List.map (fun t ->
    match split ':' t with
    | [ "a"; w ] -> HAlloc [ n_of_int (int_of_string w) ]
    | [ "r"; i; v ] -> HRetain (key_of i v)
    | [ "d"; i; v ] -> HRelease (key_of i v)
    | [ "l"; i; v ] -> HLoad (key_of i v)
    | [ "s"; i; v; w ] -> HStore (key_of i v, [ n_of_int (int_of_string w) ])
    | _ -> failwith ("bad op " ^ t)) toks in
  let (s, lg) = hrun sm_new ops in
  let show (_, r) =
    match r with
    | RKey k -> Printf.sprintf "k:%d:%d" (int_of_n k.kidx) (int_of_n k.kver)
    | RCount n -> Printf.sprintf "c:%d" (int_of_n n)
    | RData d -> "x:" ^ String.concat "," (List.map (fun w -> string_of_int (int_of_n w)) d)
    | RUnit -> "u"
    | RInvalid -> "i" in
  Printf.printf "O %s len=%d\n" (String.concat " " (List.map show lg)) (int_of_n (sm_len s))

let () =
  try
    while true do
      let line = input_line stdin in
      (match split ' ' line with
       | [ "T"; path ] -> (try replay_file path with e -> Printf.printf "T error:%s ;\n" (Printexc.to_string e))
       | "O" :: toks -> (try run_ops toks with e -> Printf.printf "O error:%s\n" (Printexc.to_string e))
       | [] -> ()
       | _ -> print_endline "error:bad-line");
      flush stdout
    done
  with End_of_file -> ()
