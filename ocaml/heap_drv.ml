(* line-protocol driver for the extracted heap / closure store model (Heap/Model.v), property C12.
   input line:
     T <path>     replay the H2 event file <path> (written by harness bin heap_run_h2) through the extracted
                  monitor step `mstep`, starting from `mach_new`.  File lines:
                     E <kind> <idx> <version> <rc>      one hook event (rc 18446744073709551615 = H2_INVALID)
                     S <t> <closures.len> <heap.len>    end of segment t (real lengths; ignored here, echoed by python)
     O <tok> ...  run heap operations on one store through `hrun` from `sm_new`:
                     a:<w> alloc with data [w] | r:<i>:<v> retain | d:<i>:<v> release | l:<i>:<v> load | s:<i>:<v>:<w> store
   output line:
     T ok|reject:<event index>:<kind>:<idx>:<ver>:<rc>|unsettled:<t> ; <t>:<model closures>:<model heap>:<settled>:<ca>:<cf>:<ha>:<hf> ...
          one item per completed segment; ca/cf/ha/hf = alloc / free events of the closure / heap store in the segment
          (counted by the extracted `count_op`)
     O <res> ... len=<n>      res: k:<i>:<v> | c:<n> | x:<w,...> | u | i *)
open Heap_model

let rec p_of_int i = if i = 1 then XH else if i land 1 = 0 then XO (p_of_int (i / 2)) else XI (p_of_int (i / 2))
let n_of_int i = if i = 0 then N0 else Npos (p_of_int i)
let rec int_of_p = function XH -> 1 | XO p -> 2 * int_of_p p | XI p -> 2 * int_of_p p + 1
let int_of_n = function N0 -> 0 | Npos p -> int_of_p p

let split c s = List.filter (fun x -> x <> "") (String.split_on_char c s)
let invalid_tok = "18446744073709551615"

let op_of_low = function
  | 0 -> EAlloc | 1 -> ERetain | 2 -> ERelease | 3 -> EFree | 4 -> EUse | 5 -> EProbe | 6 -> EClose | 7 -> ERef
  | _ -> failwith "bad op"

let event_of kind idx ver rc =
  let rc = if rc = invalid_tok then None else Some (n_of_int (int_of_string rc)) in
  let key = { kidx = n_of_int idx; kver = n_of_int ver } in
  if kind land 0x20 <> 0 then { e_store = SH; e_op = EMark (n_of_int (kind land 0x0f)); e_key = key; e_rc = rc }
  else { e_store = (if kind land 0x10 <> 0 then SC else SH); e_op = op_of_low (kind land 0x0f); e_key = key; e_rc = rc }

let replay_file path =
  let ic = open_in path in
  let m = ref mach_new in
  let segs = Buffer.create 256 in
  let status = ref "ok" in
  let idx = ref 0 in
  let seg_events = ref [] in
  (try
     while !status = "ok" do
       let line = input_line ic in
       match split ' ' line with
       | [ "E"; kind; i; v; rc ] ->
           let e = event_of (int_of_string kind) (int_of_string i) (int_of_string v) rc in
           (match mstep !m e with
            | Some m' -> m := m'; seg_events := e :: !seg_events
            | None -> status := Printf.sprintf "reject:%d:%s:%s:%s:%s" !idx kind i v rc);
           incr idx
       | "S" :: t :: _ ->
           let evs = List.rev !seg_events in
           let c w o = int_of_n (count_op w o evs) in
           let st = settled !m in
           Buffer.add_string segs
             (Printf.sprintf " %s:%d:%d:%d:%d:%d:%d:%d" t (int_of_n (live_count !m SC)) (int_of_n (live_count !m SH))
                (if st then 1 else 0) (c SC EAlloc) (c SC EFree) (c SH EAlloc) (c SH EFree));
           seg_events := [];
           if not st then status := "unsettled:" ^ t
       | _ -> ()
     done
   with End_of_file -> ());
  close_in ic;
  Printf.printf "T %s ;%s\n" !status (Buffer.contents segs)

let key_of i v = { kidx = n_of_int (int_of_string i); kver = n_of_int (int_of_string v) }

let run_ops toks =
  let ops = List.map (fun t ->
    match split ':' t with
    | [ "a"; w ] -> HAlloc [ n_of_int (int_of_string w) ]
    | [ "r"; i; v ] -> HRetain (key_of i v)
    | [ "d"; i; v ] -> HRelease (key_of i v)
    | [ "l"; i; v ] -> HLoad (key_of i v)
    | [ "s"; i; v; w ] -> HStore (key_of i v, [ n_of_int (int_of_string w) ])
    | _ -> failwith ("bad op " ^ t)) toks in
  let (s, lg) = hrun sm_new ops in
  let show (_, r) =
    match r with
    | RKey k -> Printf.sprintf "k:%d:%d" (int_of_n k.kidx) (int_of_n k.kver)
    | RCount n -> Printf.sprintf "c:%d" (int_of_n n)
    | RData d -> "x:" ^ String.concat "," (List.map (fun w -> string_of_int (int_of_n w)) d)
    | RUnit -> "u"
    | RInvalid -> "i" in
  Printf.printf "O %s len=%d\n" (String.concat " " (List.map show lg)) (int_of_n (sm_len s))

let () =
  try
    while true do
      let line = input_line stdin in
      (match split ' ' line with
       | [ "T"; path ] -> (try replay_file path with e -> Printf.printf "T error:%s ;\n" (Printexc.to_string e))
       | "O" :: toks -> (try run_ops toks with e -> Printf.printf "O error:%s\n" (Printexc.to_string e))
       | [] -> ()
       | _ -> print_endline "error:bad-line");
      flush stdout
    done
  with End_of_file -> ()
