(* line-protocol driver for the extracted template primitives and machine primitives.
   input line:  <init_len> ; op op ...      op = P<o> push | Q<o> pop | G get | S<v> set | M<v> mem | D<n>,<x>,<t> delay
   output line: T <r..> | <pos> | <w..> ; V <r..> | <pos> | <w..>  (or `V none`) ; W <r..> | <pos> | <w..> (or `W none`)
   T = template model (ss_run) on a zero storage of init_len words, V = cursor machine under the VM discipline,
   W = cursor machine under the grow-on-demand discipline *)
open Rustrt_model
let rec p_of_int i = if i = 1 then XH else if i land 1 = 0 then XO (p_of_int (i / 2)) else XI (p_of_int (i / 2))
let n_of_int i = if i = 0 then N0 else Npos (p_of_int i)
let z_of_int i = if i = 0 then Z0 else if i > 0 then Zpos (p_of_int i) else Zneg (p_of_int (-i))
let rec int_of_p = function XH -> 1 | XO p -> 2 * int_of_p p | XI p -> 2 * int_of_p p + 1
let int_of_n = function N0 -> 0 | Npos p -> int_of_p p
let int_of_z = function Z0 -> 0 | Zpos p -> int_of_p p | Zneg p -> - (int_of_p p)
let rec zeros n = if n = 0 then [] else Z0 :: zeros (n - 1)

let op_of (s : string) : sop =
  let rest = String.sub s 1 (String.length s - 1) in
  match s.[0] with
  | 'P' -> OpPush (n_of_int (int_of_string rest))
  | 'Q' -> OpPop (n_of_int (int_of_string rest))
  | 'G' -> OpGet
  | 'S' -> OpSet (z_of_int (int_of_string rest))
  | 'M' -> OpMem (z_of_int (int_of_string rest))
  | 'D' -> (match String.split_on_char ',' rest with
            | [n; x; t] -> OpDelay (n_of_int (int_of_string n), z_of_int (int_of_string x), z_of_int (int_of_string t))
            | _ -> failwith "delay")
  | _ -> failwith ("op " ^ s)

let show rs pos ws =
  String.concat " " (List.map (fun z -> string_of_int (int_of_z z)) rs) ^ " | " ^ string_of_int (int_of_n pos) ^ " | "
  ^ String.concat " " (List.map (fun z -> string_of_int (int_of_z z)) ws)

let () =
  try
    while true do
      let line = input_line stdin in
      match String.split_on_char ';' line with
      | [a; b] ->
          let n = int_of_string (String.trim a) in
          let ops = List.map op_of (List.filter (fun t -> t <> "") (String.split_on_char ' ' (String.trim b))) in
          let (rs, s) = ss_run ops { ss_pos = N0; ss_raw = zeros n } in
          let m0 = { m_words = zeros n; m_pos = N0; m_trace = [] } in
          let mach d tag = match m_run d ops m0 with
            | Some (rs, m) -> tag ^ " " ^ show rs m.m_pos m.m_words
            | None -> tag ^ " none" in
          print_endline ("T " ^ show rs s.ss_pos s.ss_raw ^ " ; " ^ mach VmD "V" ^ " ; " ^ mach WasmD "W")
      | _ -> print_endline "bad"
    done
  with End_of_file -> ()
