(* line-protocol driver for the extracted Staging model (C09 / C10).

   input line :  <cmd> TAB <arg> TAB ...            output line : fields separated by TAB
     T  k  <sexpr P>                 translate P with counter k           ->  <sexpr st0>  k'
     X  fuel k <sexpr P>             expand: ev fuel [] (translate P k)   ->  <sexpr st0>  <sexpr code | ERR kind>
     R  fuel k <sexpr P>             reference: ev fuel [] (norm0 P k)    ->  <sexpr code | ERR kind>
     N  k  <sexpr P>                 norm0 P k                             ->  <sexpr>  k'
     V  fuel <sexpr E>               run expanded code E as a program      ->  <value | ERR kind>
     M  <sexpr P>                    convert_macroexpand P                 ->  <sexpr>
     S  a b <sexpr P>                rn0 (swap a b) P                      ->  <sexpr>
     NAMES <sexpr P>                 names0 P                              ->  names separated by blanks
     TABLE                           unregistered call sites / all sites ok ->  names ...
   s-expression syntax: see harness/lang/src/bin/staging_run.rs (same printer on both sides). *)
open Staging_model

(* ---------- numbers ---------- *)
let rec p_of_int64 (i : int64) : positive =
  if Int64.equal i 1L then XH
  else if Int64.equal (Int64.logand i 1L) 0L then XO (p_of_int64 (Int64.shift_right_logical i 1))
  else XI (p_of_int64 (Int64.shift_right_logical i 1))
let rec int64_of_p = function
  | XH -> 1L
  | XO p -> Int64.shift_left (int64_of_p p) 1
  | XI p -> Int64.logor (Int64.shift_left (int64_of_p p) 1) 1L
let z_of_int64 i = if Int64.equal i 0L then Z0 else if Int64.compare i 0L > 0 then Zpos (p_of_int64 i) else Zneg (p_of_int64 (Int64.neg i))
let int64_of_z = function Z0 -> 0L | Zpos p -> int64_of_p p | Zneg p -> Int64.neg (int64_of_p p)
let z_of_int i = z_of_int64 (Int64.of_int i)
let int_of_z z = Int64.to_int (int64_of_z z)
let rec nat_of_int i = if i <= 0 then O else S (nat_of_int (i - 1))
let rec int_of_nat = function O -> 0 | S n -> 1 + int_of_nat n

(* f64 bit pattern <-> spec_float (canonical binary64 representation) *)
let sf_of_bits (b : int64) : spec_float =
  let sign = Int64.compare b 0L < 0 in
  let ex = Int64.to_int (Int64.logand (Int64.shift_right_logical b 52) 0x7ffL) in
  let frac = Int64.logand b 0xfffffffffffffL in
  if ex = 0x7ff then (if Int64.equal frac 0L then S754_infinity sign else S754_nan)
  else if ex = 0 then (if Int64.equal frac 0L then S754_zero sign else S754_finite (sign, p_of_int64 frac, z_of_int (-1074)))
  else S754_finite (sign, p_of_int64 (Int64.logor frac 0x10000000000000L), z_of_int (ex - 1075))

let bits_of_sf (f : spec_float) : string =
  match f with
  | S754_nan -> "NaN"
  | S754_zero s -> if s then "8000000000000000" else "0000000000000000"
  | S754_infinity s -> if s then "fff0000000000000" else "7ff0000000000000"
  | S754_finite (s, m, e) ->
      let m = int64_of_p m and e = int_of_z e in
      (* normalise to the canonical form (the model's arithmetic returns canonical values) *)
      let m = ref m and e = ref e in
      while Int64.compare !m 0x20000000000000L >= 0 do m := Int64.shift_right_logical !m 1; incr e done;
      while Int64.compare !m 0x10000000000000L < 0 && !e > -1074 do m := Int64.shift_left !m 1; decr e done;
      let bits =
        if Int64.compare !m 0x10000000000000L < 0 then !m
        else Int64.logor (Int64.shift_left (Int64.of_int (!e + 1075)) 52) (Int64.logand !m 0xfffffffffffffL) in
      let bits = if s then Int64.logor bits Int64.min_int else bits in
      Printf.sprintf "%016Lx" bits

(* ---------- strings ---------- *)
let cl_of_string (s : string) : char list = List.init (String.length s) (String.get s)
let string_of_cl (l : char list) : string = String.init (List.length l) (List.nth l)
let string_of_cl l = let b = Buffer.create 16 in List.iter (Buffer.add_char b) l; Buffer.contents b

let q (l : char list) : string =
  let b = Buffer.create 16 in
  Buffer.add_char b '"';
  List.iter (fun c -> match c with
    | '"' -> Buffer.add_string b "\\\""
    | '\\' -> Buffer.add_string b "\\\\"
    | '\n' -> Buffer.add_string b "\\n"
    | c -> Buffer.add_char b c) l;
  Buffer.add_char b '"';
  Buffer.contents b

(* ---------- s-expressions ---------- *)
type sx = A of string | Q of string | L of sx list

let parse_sx (s : string) : sx =
  let n = String.length s in
  let pos = ref 0 in
  let skip () = while !pos < n && (s.[!pos] = ' ' || s.[!pos] = '\t') do incr pos done in
  let rec go () =
    skip ();
    if !pos >= n then failwith "eof";
    match s.[!pos] with
    | '(' ->
        incr pos;
        let rec items acc =
          skip ();
          if !pos >= n then failwith "eof in list";
          if s.[!pos] = ')' then (incr pos; List.rev acc) else let x = go () in items (x :: acc) in
        L (items [])
    | '"' ->
        incr pos;
        let b = Buffer.create 16 in
        while !pos < n && s.[!pos] <> '"' do
          if s.[!pos] = '\\' && !pos + 1 < n then begin
            incr pos;
            Buffer.add_char b (match s.[!pos] with 'n' -> '\n' | c -> c)
          end else Buffer.add_char b s.[!pos];
          incr pos
        done;
        incr pos;
        Q (Buffer.contents b)
    | _ ->
        let st = !pos in
        while !pos < n && s.[!pos] <> ' ' && s.[!pos] <> '(' && s.[!pos] <> ')' && s.[!pos] <> '\t' do incr pos done;
        A (String.sub s st (!pos - st)) in
  go ()

let name = function Q s -> cl_of_string s | _ -> failwith "expected quoted name"

let rec build_ty = function
  | L [A "tcode"; t] -> TCode (build_ty t)
  | L [A "tfun"; a; r] -> TFun (build_ty a, build_ty r)
  | L (A "ttuple" :: ts) -> TTuple (List.map build_ty ts)
  | L [A "tarray"; t] -> TArray (build_ty t)
  | L [A "tref"; t] -> TRef (build_ty t)
  | L (A "trecord" :: fs) ->
      TRecord (List.map (function L [k; t; A d] -> ((name k, build_ty t), d = "#t") | _ -> failwith "bad record type field") fs)
  | L [A "topq"; Q s] -> TOpq (cl_of_string s)
  | _ -> failwith "bad type"

let build_lit = function
  | L [A "lit-f"; A h] -> Some (LFloat (if h = "NaN" then S754_nan else sf_of_bits (Int64.of_string ("0x" ^ h))))
  | L [A "lit-i"; A i] -> Some (LInt (z_of_int64 (Int64.of_string i)))
  | L [A "lit-s"; s] -> Some (LString (name s))
  | L [A "lit-ty"; t] -> Some (LTy (build_ty t))
  | L [A "self"] -> Some LSelf
  | L [A "now"] -> Some LNow
  | L [A "sr"] -> Some LSampleRate
  | L [A "ph"] -> Some LPlaceHolder
  | _ -> None

let rec build_pat = function
  | L [A "p1"; n] -> PSingle (name n)
  | L [A "p_"] -> PPlaceholder
  | L (A "ptuple" :: ps) -> PTuple (List.map build_pat ps)
  | L (A "precord" :: fs) -> PRecord (List.map (function L [n; p] -> (name n, build_pat p) | _ -> failwith "bad record pattern") fs)
  | L [A "perr"] -> PError
  | _ -> failwith "bad pattern"

let rec build_mpat = function
  | L [A "mwild"] -> MWild
  | L [A "mvar"; n] -> MVar (name n)
  | L [A "mlit"; l] -> (match build_lit l with Some l -> MLit l | None -> failwith "bad mlit")
  | L [A "mctor"; n] -> MCtor (name n, None)
  | L [A "mctor"; n; i] -> MCtor (name n, Some (build_mpat i))
  | L (A "mtuple" :: ps) -> MTuple (List.map build_mpat ps)
  | _ -> failwith "bad match pattern"

let rec build (s : sx) : expr =
  match build_lit s with
  | Some l -> ELit l
  | None ->
  match s with
  | L [A "var"; n] -> EVar (name n)
  | L (A "qvar" :: segs) -> EQualifiedVar (List.map name segs)
  | L [A "block"; b] -> EBlock (build_opt b)
  | L (A "tuple" :: es) -> ETuple (List.map build es)
  | L [A "proj"; e; A i] -> EProj (build e, z_of_int64 (Int64.of_string i))
  | L [A "aacc"; a; i] -> EArrayAccess (build a, build i)
  | L (A "arr" :: es) -> EArrayLiteral (List.map build es)
  | L (A "rec" :: fs) -> ERecordLiteral (build_fields fs)
  | L (A "irec" :: fs) -> EImcompleteRecord (build_fields fs)
  | L (A "recupd" :: r :: fs) -> ERecordUpdate (build r, build_fields fs)
  | L [A "facc"; r; f] -> EFieldAccess (build r, name f)
  | L (A "app" :: f :: args) -> EApply (build f, List.map build args)
  | L (A "mexp" :: f :: args) -> EMacroExpand (build f, List.map build args)
  | L [A "binop"; Q op; l; r] -> EBinOp (build l, cl_of_string op, build r)
  | L [A "uniop"; Q op; e] -> EUniOp (cl_of_string op, build e)
  | L [A "paren"; e] -> EParen (build e)
  | L [A "lam"; L ps; rt; body] ->
      let ps = List.map (function L [A "p"; n; t; d] -> ((name n, build_ty t), build_opt d) | _ -> failwith "bad param") ps in
      let rt = (match rt with A "#n" -> None | t -> Some (build_ty t)) in
      ELambda (ps, rt, build body)
  | L [A "assign"; l; r] -> EAssign (build l, build r)
  | L [A "then"; a; b] -> EThen (build a, build_opt b)
  | L [A "feed"; n; b] -> EFeed (name n, build b)
  | L [A "let"; p; t; v; b] -> ELet (build_pat p, build_ty t, build v, build_opt b)
  | L [A "letrec"; n; t; v; b] -> ELetRec (name n, build_ty t, build v, build_opt b)
  | L [A "if"; c; t; e] -> EIf (build c, build t, build_opt e)
  | L (A "match" :: s :: arms) ->
      EMatch (build s, List.map (function L [A "arm"; p; b] -> (build_mpat p, build b) | _ -> failwith "bad arm") arms)
  | L [A "bracket"; e] -> EBracket (build e)
  | L [A "escape"; e] -> EEscape (build e)
  | L [A "error"] -> EError
  | _ -> failwith "bad expr"
and build_opt = function A "#n" -> None | s -> Some (build s)
and build_fields fs = List.map (function L [n; e] -> (name n, build e) | _ -> failwith "bad field") fs

(* ---------- printer ---------- *)
let rec ser_ty b = function
  | TOpq s -> Buffer.add_string b "(topq "; Buffer.add_string b (q s); Buffer.add_char b ')'
  | TCode t -> Buffer.add_string b "(tcode "; ser_ty b t; Buffer.add_char b ')'
  | TFun (a, r) -> Buffer.add_string b "(tfun "; ser_ty b a; Buffer.add_char b ' '; ser_ty b r; Buffer.add_char b ')'
  | TTuple ts -> Buffer.add_string b "(ttuple"; List.iter (fun t -> Buffer.add_char b ' '; ser_ty b t) ts; Buffer.add_char b ')'
  | TRecord fs ->
      Buffer.add_string b "(trecord";
      List.iter (fun ((k, t), d) -> Buffer.add_string b " ("; Buffer.add_string b (q k); Buffer.add_char b ' '; ser_ty b t;
                  Buffer.add_string b (if d then " #t)" else " #f)")) fs;
      Buffer.add_char b ')'
  | TArray t -> Buffer.add_string b "(tarray "; ser_ty b t; Buffer.add_char b ')'
  | TRef t -> Buffer.add_string b "(tref "; ser_ty b t; Buffer.add_char b ')'

let ser_lit b = function
  | LFloat f -> Buffer.add_string b "(lit-f "; Buffer.add_string b (bits_of_sf f); Buffer.add_char b ')'
  | LInt z -> Buffer.add_string b (Printf.sprintf "(lit-i %Ld)" (int64_of_z z))
  | LString s -> Buffer.add_string b "(lit-s "; Buffer.add_string b (q s); Buffer.add_char b ')'
  | LSelf -> Buffer.add_string b "(self)"
  | LNow -> Buffer.add_string b "(now)"
  | LSampleRate -> Buffer.add_string b "(sr)"
  | LPlaceHolder -> Buffer.add_string b "(ph)"
  | LTy t -> Buffer.add_string b "(lit-ty "; ser_ty b t; Buffer.add_char b ')'

let rec ser_pat b = function
  | PSingle s -> Buffer.add_string b "(p1 "; Buffer.add_string b (q s); Buffer.add_char b ')'
  | PPlaceholder -> Buffer.add_string b "(p_)"
  | PTuple ps -> Buffer.add_string b "(ptuple"; List.iter (fun p -> Buffer.add_char b ' '; ser_pat b p) ps; Buffer.add_char b ')'
  | PRecord fs ->
      Buffer.add_string b "(precord";
      List.iter (fun (n, p) -> Buffer.add_string b " ("; Buffer.add_string b (q n); Buffer.add_char b ' '; ser_pat b p; Buffer.add_char b ')') fs;
      Buffer.add_char b ')'
  | PError -> Buffer.add_string b "(perr)"

let rec ser_mpat b = function
  | MLit l -> Buffer.add_string b "(mlit "; ser_lit b l; Buffer.add_char b ')'
  | MWild -> Buffer.add_string b "(mwild)"
  | MVar s -> Buffer.add_string b "(mvar "; Buffer.add_string b (q s); Buffer.add_char b ')'
  | MCtor (n, i) ->
      Buffer.add_string b "(mctor "; Buffer.add_string b (q n);
      (match i with Some i -> Buffer.add_char b ' '; ser_mpat b i | None -> ());
      Buffer.add_char b ')'
  | MTuple ps -> Buffer.add_string b "(mtuple"; List.iter (fun p -> Buffer.add_char b ' '; ser_mpat b p) ps; Buffer.add_char b ')'

let rec ser b (e : expr) : unit =
  let s = Buffer.add_string b and c = Buffer.add_char b in
  let list es = List.iter (fun x -> c ' '; ser b x) es in
  let opt = function Some x -> ser b x | None -> s "#n" in
  let fields fs = List.iter (fun (n, x) -> s " ("; s (q n); c ' '; ser b x; c ')') fs in
  match e with
  | ELit l -> ser_lit b l
  | EVar x -> s "(var "; s (q x); c ')'
  | EQualifiedVar segs -> s "(qvar"; List.iter (fun x -> c ' '; s (q x)) segs; c ')'
  | EBlock x -> s "(block "; opt x; c ')'
  | ETuple es -> s "(tuple"; list es; c ')'
  | EProj (x, i) -> s "(proj "; ser b x; s (Printf.sprintf " %Ld)" (int64_of_z i))
  | EArrayAccess (a, i) -> s "(aacc "; ser b a; c ' '; ser b i; c ')'
  | EArrayLiteral es -> s "(arr"; list es; c ')'
  | ERecordLiteral fs -> s "(rec"; fields fs; c ')'
  | EImcompleteRecord fs -> s "(irec"; fields fs; c ')'
  | ERecordUpdate (r, fs) -> s "(recupd "; ser b r; fields fs; c ')'
  | EFieldAccess (r, f) -> s "(facc "; ser b r; c ' '; s (q f); c ')'
  | EApply (f, args) -> s "(app "; ser b f; list args; c ')'
  | EMacroExpand (f, args) -> s "(mexp "; ser b f; list args; c ')'
  | EBinOp (l, op, r) -> s "(binop "; s (q op); c ' '; ser b l; c ' '; ser b r; c ')'
  | EUniOp (op, x) -> s "(uniop "; s (q op); c ' '; ser b x; c ')'
  | EParen x -> s "(paren "; ser b x; c ')'
  | ELambda (ps, rt, body) ->
      s "(lam (";
      List.iteri (fun i ((n, t), d) -> if i > 0 then c ' '; s "(p "; s (q n); c ' '; ser_ty b t; c ' '; opt d; c ')') ps;
      s ") ";
      (match rt with Some t -> ser_ty b t | None -> s "#n");
      c ' '; ser b body; c ')'
  | EAssign (l, r) -> s "(assign "; ser b l; c ' '; ser b r; c ')'
  | EThen (a, x) -> s "(then "; ser b a; c ' '; opt x; c ')'
  | EFeed (n, x) -> s "(feed "; s (q n); c ' '; ser b x; c ')'
  | ELet (p, t, v, x) -> s "(let "; ser_pat b p; c ' '; ser_ty b t; c ' '; ser b v; c ' '; opt x; c ')'
  | ELetRec (n, t, v, x) -> s "(letrec "; s (q n); c ' '; ser_ty b t; c ' '; ser b v; c ' '; opt x; c ')'
  | EIf (cd, t, x) -> s "(if "; ser b cd; c ' '; ser b t; c ' '; opt x; c ')'
  | EMatch (sc, arms) ->
      s "(match "; ser b sc;
      List.iter (fun (p, x) -> s " (arm "; ser_mpat b p; c ' '; ser b x; c ')') arms;
      c ')'
  | EBracket x -> s "(bracket "; ser b x; c ')'
  | EEscape x -> s "(escape "; ser b x; c ')'
  | EError -> s "(error)"

let show e = let b = Buffer.create 256 in ser b e; Buffer.contents b

let show_err = function
  | OutOfFuel -> "ERR out-of-fuel"
  | Unbound x -> "ERR unbound:" ^ string_of_cl x
  | Stuck -> "ERR stuck"

let rec show_val = function
  | VNum f -> "num:" ^ bits_of_sf f
  | VInt z -> Printf.sprintf "int:%Ld" (int64_of_z z)
  | VStr s -> "str:" ^ q s
  | VTy _ -> "ty"
  | VUnit -> "unit"
  | VCode c -> "code:" ^ show c
  | VArr l -> "arr[" ^ String.concat "," (List.map show_val l) ^ "]"
  | VTup l -> "tup[" ^ String.concat "," (List.map show_val l) ^ "]"
  | VClos _ | VRec _ -> "closure"
  | VPrim n -> "prim:" ^ string_of_cl n

let split_tab s = String.split_on_char '\t' s

let () =
  try
    while true do
      let line = input_line stdin in
      if String.length line > 0 then begin
        let out =
          try
            match split_tab line with
            | ["T"; k; p] ->
                let (e, k') = translate (build (parse_sx p)) (nat_of_int (int_of_string k)) in
                show e ^ "\t" ^ string_of_int (int_of_nat k')
            | ["X"; fuel; k; p] ->
                let (e, _) = translate (build (parse_sx p)) (nat_of_int (int_of_string k)) in
                let r = (match scope0 [] e with
                         | Some er -> show_err er
                         | None ->
                         match ev (nat_of_int (int_of_string fuel)) [] e with
                         | Ok (VCode c) -> show c
                         | Ok v -> "ERR not-code:" ^ show_val v
                         | Err er -> show_err er) in
                show e ^ "\t" ^ r
            | ["R"; fuel; k; p] ->
                let (e, _) = norm0 (build (parse_sx p)) (nat_of_int (int_of_string k)) in
                (match ev (nat_of_int (int_of_string fuel)) [] e with
                 | Ok (VCode c) -> show c
                 | Ok v -> "ERR not-code:" ^ show_val v
                 | Err er -> show_err er)
            | ["N"; k; p] ->
                let (e, k') = norm0 (build (parse_sx p)) (nat_of_int (int_of_string k)) in
                show e ^ "\t" ^ string_of_int (int_of_nat k')
            | ["V"; fuel; p] ->
                (match ev (nat_of_int (int_of_string fuel)) [] (build (parse_sx p)) with
                 | Ok v -> show_val v
                 | Err er -> show_err er)
            | ["M"; p] -> show (convert_macroexpand (build (parse_sx p)))
            | ["S"; a; b; p] -> show (rn0 (swap_name (cl_of_string a) (cl_of_string b)) (build (parse_sx p)))
            | ["NAMES"; p] -> String.concat " " (List.map string_of_cl (names0 (build (parse_sx p))))
            | ["TABLE"] ->
                let bad = List.filter (fun c -> not (site_ok c)) emitted in
                "unregistered=" ^ String.concat "," (List.map (fun (n, _) -> string_of_cl n) unregistered_sites)
                ^ "\tbad=" ^ String.concat "," (List.map (fun (n, k) -> string_of_cl n ^ "/" ^ string_of_int (int_of_nat k)) bad)
            | _ -> "ERR driver-bad-command"
          with
          | Failure m -> "ERR driver:" ^ m
          | Stack_overflow -> "ERR driver-stack-overflow"
          | Not_found -> "ERR driver-not-found"
        in
        print_endline out
      end
    done
  with End_of_file -> ()
