(* line-protocol driver for the extracted formatter model (coq/theories/Fmt/Model.v).
   input  line: <indent> TAB <cst dump> TAB <escaped text> TAB <cst dump of the output | ->
     cst dump (harness/lang/src/bin/fmt_run.rs cst_dump):  (Kind child ...) | [TokenKind QUOTED (trivia..) (trivia..)]
     trivia: L QUOTED, B QUOTED, N, W ; escapes in quoted strings and in <escaped text>: backslash n r t backslash quote
   output line: F<0|1> TAB A<0|1> TAB S<0|1> TAB D<0|1|-> TAB <dwords> TAB <cst_words> TAB K<0|1>
     F in_fragment, A is_rendering (doc_of ind cst) text, S safe_breaks (doc_of ind cst),
     D doc_of of the output's cst equals doc_of of the input's cst; words are escaped and joined by 0x1f,
     K keeps_breaks ind cst (the document forces exactly the line breaks of the source at the sensitive positions) *)
open Fmt_model

let rec nat_of_int i = if i <= 0 then O else S (nat_of_int (i - 1))
let chars_of_string (s : string) : char list = List.init (String.length s) (String.get s)
let string_of_chars (l : char list) : string = String.concat "" (List.map (String.make 1) l)

let unescape (s : string) : string =
  let b = Buffer.create (String.length s) in
  let n = String.length s in
  let i = ref 0 in
  while !i < n do
    (if s.[!i] = '\\' && !i + 1 < n then begin
       incr i;
       Buffer.add_char b (match s.[!i] with 'n' -> '\n' | 'r' -> '\r' | 't' -> '\t' | c -> c)
     end else Buffer.add_char b s.[!i]);
    incr i
  done;
  Buffer.contents b

let escape (s : string) : string =
  let b = Buffer.create (String.length s) in
  String.iter (fun c -> match c with
    | '\n' -> Buffer.add_string b "\\n" | '\r' -> Buffer.add_string b "\\r" | '\t' -> Buffer.add_string b "\\t"
    | '\\' -> Buffer.add_string b "\\\\" | c -> Buffer.add_char b c) s;
  Buffer.contents b

let tkind_of = function
  | "Function" -> KFunction | "Let" -> KLet | "LetRec" -> KLetRec | "Assign" -> KAssign | "Arrow" -> KArrow
  | "OpSum" | "OpMinus" -> KOp (false, true)
  | "OpProduct" | "OpDivide" | "OpModulo" | "OpExponent" | "OpAnd" | "OpOr" | "OpEqual"
  | "OpNotEqual" | "OpLessThan" | "OpGreaterThan" | "OpLessEqual" | "OpGreaterEqual" | "OpAt" -> KOp (false, false)
  | "OpPipe" | "OpPipeMacro" -> KOp (true, false)
  | "LambdaArgBeginEnd" -> KLambdaBar | "Comma" -> KComma | "If" -> KIf | "Else" -> KElse
  | "BlockBegin" -> KBlockBegin | "BlockEnd" -> KBlockEnd | "ParenBegin" -> KParenBegin | "ParenEnd" -> KParenEnd
  | "ArrayBegin" -> KArrayBegin | "ArrayEnd" -> KArrayEnd
  | "Ident" | "IdentFunction" | "IdentVariable" -> KIdent
  | "MacroExpand" -> KMacroExpand | "LeftArrow" -> KLeftArrow | "DoubleColon" -> KDoubleColon
  | "Macro" -> KMacro | "Mod" -> KMod | "Use" -> KUse | "Pub" -> KPub
  | _ -> KOther

let skind_of = function
  | "Program" -> SProgram | "Statement" -> SStatement | "FunctionDecl" -> SFunctionDecl | "LetDecl" -> SLetDecl
  | "LetRecDecl" -> SLetRecDecl | "AssignExpr" -> SAssignExpr | "BinaryExpr" -> SBinaryExpr | "UnaryExpr" -> SUnaryExpr
  | "CallExpr" -> SCallExpr | "LambdaExpr" -> SLambdaExpr | "IfExpr" -> SIfExpr | "BlockExpr" -> SBlockExpr
  | "TupleExpr" | "ParamList" | "ArgList" | "TuplePattern" -> SGroupedList (false, true)
  | "ArrayExpr" | "RecordPattern" -> SGroupedList (false, false)
  | "TupleType" -> SGroupedList (true, true)
  | "RecordType" -> SGroupedList (true, false)
  | "ParenExpr" -> SParenExpr
  | "RecordExpr" -> SRecordExpr | "MacroExpansion" -> SMacroExpansion | "QualifiedPath" -> SQualifiedPath
  | "IntLiteral" | "FloatLiteral" | "StringLiteral" | "SelfLiteral" | "NowLiteral" | "SampleRateLiteral"
  | "PlaceHolderLiteral" | "Identifier" | "FieldAccess" | "IndexExpr" | "TypeAnnotation" | "Pattern" | "SinglePattern"
  | "ParamDefault" | "ExprList" | "EscapeExpr" | "BracketExpr" | "IncludeStmt" | "StageDecl" -> SLeaf false
  | "PrimitiveType" | "UnitType" | "TypeIdent" | "FunctionType" | "ArrayType" | "CodeType" | "UnionType" -> SLeaf true
  | "MatchExpr" | "MatchArm" | "MatchPattern" | "ConstructorPattern" | "TypeDecl" | "VariantDef" -> SSpaced
  | "MatchArmList" -> SMatchArmList
  | "ModuleDecl" -> SModuleDecl | "UseStmt" -> SUseStmt | "UseTargetMultiple" -> SUseMultiple
  | "UseTargetWildcard" -> SUseWildcard | "VisibilityPub" -> SVisibilityPub
  | _ -> SOutside   (* Error *)

let parse_cst (s : string) : cst =
  let pos = ref 0 in
  let n = String.length s in
  let ws () = while !pos < n && s.[!pos] = ' ' do incr pos done in
  let word () =
    let st = !pos in
    while !pos < n && (match s.[!pos] with ' ' | '(' | ')' | '[' | ']' | '"' -> false | _ -> true) do incr pos done;
    String.sub s st (!pos - st) in
  let quoted () =
    if s.[!pos] <> '"' then failwith "expected quote";
    incr pos;
    let b = Buffer.create 16 in
    while s.[!pos] <> '"' do
      (if s.[!pos] = '\\' then begin
         incr pos;
         Buffer.add_char b (match s.[!pos] with 'n' -> '\n' | 'r' -> '\r' | 't' -> '\t' | c -> c)
       end else Buffer.add_char b s.[!pos]);
      incr pos
    done;
    incr pos;
    Buffer.contents b in
  let trivia () =
    if s.[!pos] <> '(' then failwith "expected ( of trivia";
    incr pos;
    let rec go acc =
      ws ();
      match s.[!pos] with
      | ')' -> incr pos; List.rev acc
      | 'L' -> incr pos; let t = quoted () in go (TLine (chars_of_string t) :: acc)
      | 'B' -> incr pos; let t = quoted () in go (TBlock (chars_of_string t) :: acc)
      | 'X' -> incr pos; let _ = quoted () in go (TWs :: acc)
      | 'N' -> incr pos; go (TNl :: acc)
      | 'W' -> incr pos; go (TWs :: acc)
      | c -> failwith (Printf.sprintf "bad trivia %c" c) in
    go [] in
  let rec node () =
    ws ();
    match s.[!pos] with
    | '[' ->
        incr pos;
        let k = word () in
        ws ();
        let t = quoted () in
        ws ();
        let l = trivia () in
        ws ();
        let r = trivia () in
        ws ();
        if s.[!pos] <> ']' then failwith "expected ]";
        incr pos;
        Tok (tkind_of k, chars_of_string t, l, r)
    | '(' ->
        incr pos;
        let k = word () in
        let rec go acc = ws (); if s.[!pos] = ')' then (incr pos; List.rev acc) else let c = node () in go (c :: acc) in
        Node (skind_of k, go [])
    | c -> failwith (Printf.sprintf "bad char %c at %d" c !pos) in
  node ()

let b2s b = if b then "1" else "0"
let words_str ws = String.concat "\x1f" (List.map (fun w -> escape (string_of_chars w)) ws)

let () =
  try
    while true do
      let line = input_line stdin in
      if String.length line > 0 then begin
        match String.split_on_char '\t' line with
        | [ind; cst_s; text; out_cst] ->
            (try
               let ind = nat_of_int (int_of_string ind) in
               let c = parse_cst cst_s in
               let d = doc_of ind c in
               let frag = in_fragment c in
               (* cst_print.rs pretty_print: `if !formatted.ends_with('\n') { formatted.push('\n') }` *)
               let text = unescape text in
               let wrap r = if String.length r > 0 && r.[String.length r - 1] = '\n' then r else r ^ "\n" in
               let cands = List.filter (fun r -> wrap r = text)
                   (text :: (if String.length text > 0 then [String.sub text 0 (String.length text - 1)] else [])) in
               let a = frag && List.exists (fun r -> is_rendering d (chars_of_string r)) cands in
               let s = safe_breaks d in
               let dd = if out_cst = "-" then "-" else b2s (same_doc (doc_of ind (parse_cst out_cst)) d) in
               let k = keeps_breaks ind c in
               (if Sys.getenv_opt "FMT_DRV_DEBUG" <> None then
                  let fl l = String.concat "" (List.map b2s l) in
                  Printf.eprintf "src_observed=%s doc_flags=%s\n" (fl (src_observed c)) (fl (doc_flags d)));
               Printf.printf "F%s\tA%s\tS%s\tD%s\t%s\t%s\tK%s\n" (b2s frag) (b2s a) (b2s s) dd (words_str (dwords d)) (words_str (cst_words c)) (b2s k)
             with Failure m -> Printf.printf "E%s\n" (escape m)
                | Invalid_argument m -> Printf.printf "E%s\n" (escape m))
        | _ -> print_endline "Ebad request"
      end;
      flush stdout
    done
  with End_of_file -> ()
