(* line-protocol driver for the extracted Lexer model.
   input  line: the characters of one source text as seen by the real tokenizer,
                "cp.bits,cp.bits,..." (decimal code point; bits: 1 = is_newline, 2 = is_ident_start,
                4 = is_ident_continue, 8 = is_digit(10), 16 = is_ascii_digit); empty line = empty text
   output line: T<TAB>P<TAB>D   with
                T = Kind:start:len,...          (tokens of Model.tokenize)
                P = i,i,..|k=i.i.i,k=..|k=..    (token_indices | leading map | trailing map, keys ascending)
                D = j,j,...                      (trivia token indices with PreLemmas.dropped toks j = true: the F5 class)
                or FUEL when the model runs out of fuel *)
open Lex_model
let rec p_of_int i = if i = 1 then XH else if i land 1 = 0 then XO (p_of_int (i / 2)) else XI (p_of_int (i / 2))
let n_of_int i = if i = 0 then N0 else Npos (p_of_int i)
let rec int_of_p = function XH -> 1 | XO p -> 2 * int_of_p p | XI p -> 2 * int_of_p p + 1
let int_of_n = function N0 -> 0 | Npos p -> int_of_p p
let int_of_nat n = let rec go acc = function O -> acc | S m -> go (acc + 1) m in go 0 n

let string_of_chars (l : char list) = String.init (List.length l) (List.nth l)
let kname =
  let tbl = Hashtbl.create 128 in
  fun k -> match Hashtbl.find_opt tbl k with
    | Some s -> s
    | None -> let s = string_of_chars (kind_name k) in Hashtbl.add tbl k s; s

let parse_line (line : string) : ch list =
  if line = "" then [] else
  List.map (fun item ->
      match String.split_on_char '.' item with
      | [c; b] ->
          let b = int_of_string b in
          { cp = n_of_int (int_of_string c); c_newline = b land 1 <> 0; c_ident_start = b land 2 <> 0;
            c_ident_cont = b land 4 <> 0; c_digit = b land 8 <> 0; c_ascii_digit = b land 16 <> 0 }
      | _ -> failwith ("bad item " ^ item))
    (String.split_on_char ',' line)

let show_tokens toks =
  String.concat "," (List.map (fun t -> Printf.sprintf "%s:%d:%d" (kname t.tk_kind) (int_of_n t.tk_start) (int_of_n t.tk_len)) toks)

let show_map m =
  let l = List.map (fun (k, vs) -> (int_of_n k, List.map int_of_n vs)) m in
  let l = List.sort compare l in
  String.concat "," (List.map (fun (k, vs) -> Printf.sprintf "%d=%s" k (String.concat "." (List.map string_of_int vs))) l)

let show_pre pp =
  Printf.sprintf "%s|%s|%s"
    (String.concat "," (List.map (fun i -> string_of_int (int_of_n i)) pp.pp_token_indices))
    (show_map pp.pp_leading) (show_map pp.pp_trailing)

let rec nat_of_int i = if i = 0 then O else S (nat_of_int (i - 1))
let show_dropped toks =
  let js = List.filteri (fun _ _ -> true) (List.mapi (fun j t -> (j, t)) toks) in
  String.concat "," (List.filter_map (fun (j, t) ->
      if is_trivia t && dropped toks (nat_of_int j) then Some (string_of_int j) else None) js)

let () =
  let out = Buffer.create 65536 in
  (try
    while true do
      let line = input_line stdin in
      (match lex_and_preparse (parse_line line) with
       | None -> Buffer.add_string out "FUEL\n"
       | Some (toks, pp) ->
           Buffer.add_string out (show_tokens toks); Buffer.add_char out '\t';
           Buffer.add_string out (show_pre pp); Buffer.add_char out '\t';
           Buffer.add_string out (show_dropped toks); Buffer.add_char out '\n');
      if Buffer.length out > 60000 then (print_string (Buffer.contents out); Buffer.clear out)
    done
  with End_of_file -> ());
  print_string (Buffer.contents out)
