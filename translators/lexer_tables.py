#!/usr/bin/env python3
"""token.rs + tokenizer.rs + preparser.rs -> Tables/LexerTables.v

Declarative parts of the lexer are *translated* (regenerated on every run):
  * `pub enum TokenKind { ... }`                     -> Inductive TokenKind, kind_name
  * `Token::is_trivia` (`matches!` list)              -> is_trivia_kind
  * `one_of(" \\t\\r")` of whitespace_parser          -> whitespace_chars
  * `operator_parser` / `punctuation_parser` choices  -> operator_table / punctuation_table (ordered)
  * the keyword `match` of identifier_parser          -> keyword_table, ident_default_kind
  * the ordered choice of `token_parser`              -> token_parser_order
The procedural parts that Lexer/Model.v transcribes by hand are *pinned*: the comment-stripped,
whitespace-normalised text of each transcribed Rust function must hash to the value recorded here,
otherwise the translator raises (the model has to be re-transcribed and the pin updated).
"""
import hashlib, re, sys

TARGET = "LexerTables.v"
PDIR = "crates/lib/mimium-lang/src/compiler/parser"

RULES = {  # sub-parser of token_parser -> model rule constructor
    "comment_parser": "RComment", "linebreak_parser": "RLinebreak", "whitespace_parser": "RWhitespace",
    "string_parser": "RString", "number_parser": "RNumber", "identifier_parser": "RIdentifier",
    "operator_parser": "ROperator", "punctuation_parser": "RPunctuation",
}

# sha256 (first 16 hex) of the normalised source of every hand-transcribed function
PINNED = {
    "tokenizer.rs:linebreak_parser": "e7671a6ecd2d7f8b",
    "tokenizer.rs:comment_parser": "837ef2d5cd0b2a7a",
    "tokenizer.rs:string_parser": "1f604ffb96b8022e",
    "tokenizer.rs:number_parser": "b24f13aa9c4ac3de",
    "tokenizer.rs:split_projection_float_tokens": "c25eef8a5a66b23a",
    "tokenizer.rs:tokenize": "ea0d72fc6f6668fa",
    "token.rs:new": "0dabb9231e8d1b2a",
    "token.rs:end": "b3d389f4e084828b",
    "token.rs:text": "55b23912b128b560",
    "preparser.rs:preparse": "06f6b9a4844aff1a",
}


class Shape(RuntimeError):
    pass


def strip_comments(src):
    """remove // and /* */ comments outside string/char literals"""
    out, i, n = [], 0, len(src)
    while i < n:
        c = src[i]
        if c == '"':
            j = i + 1
            while j < n and src[j] != '"':
                j += 2 if src[j] == "\\" else 1
            out.append(src[i:j + 1]); i = j + 1
        elif c == "'" and i + 2 < n and (src[i + 2] == "'" or (src[i + 1] == "\\" and "'" in src[i + 2:i + 8])):
            j = src.index("'", i + 2 if src[i + 1] != "\\" else i + 3)
            out.append(src[i:j + 1]); i = j + 1
        elif src.startswith("//", i):
            while i < n and src[i] != "\n":
                i += 1
        elif src.startswith("/*", i):
            i = src.index("*/", i) + 2
        else:
            out.append(c); i += 1
    return "".join(out)


def fn_source(src, name, fname):
    """text of `fn name ... { ... }` (balanced braces, string literals respected) in comment-stripped src"""
    ms = list(re.finditer(r"\bfn\s+" + re.escape(name) + r"\b", src))
    if len(ms) != 1:
        raise Shape(f"{fname}: expected exactly one `fn {name}`, found {len(ms)}")
    i = src.index("{", ms[0].end())
    # skip `where` clauses: the body is the first `{` at angle/paren depth 0 — generic bounds contain no braces here
    depth, j, n = 0, i, len(src)
    while j < n:
        c = src[j]
        if c == '"':
            j += 1
            while src[j] != '"':
                j += 2 if src[j] == "\\" else 1
        elif c == "'" and src[j + 2:j + 3] == "'":
            j += 2
        elif c == "'" and src[j + 1] == "\\" and src[j + 3:j + 4] == "'":
            j += 3
        elif c == "{":
            depth += 1
        elif c == "}":
            depth -= 1
            if depth == 0:
                return src[ms[0].start():j + 1]
        j += 1
    raise Shape(f"{fname}: unbalanced braces in fn {name}")


def norm_hash(text):
    return hashlib.sha256(re.sub(r"\s+", " ", text).strip().encode()).hexdigest()[:16]


RUST_ESC = {"n": "\n", "t": "\t", "r": "\r", "\\": "\\", '"': '"', "'": "'", "0": "\0"}


def unescape(lit, where):
    out, i = [], 0
    while i < len(lit):
        if lit[i] == "\\":
            if i + 1 >= len(lit) or lit[i + 1] not in RUST_ESC:
                raise Shape(f"{where}: unsupported escape in literal {lit!r}")
            out.append(RUST_ESC[lit[i + 1]]); i += 2
        else:
            out.append(lit[i]); i += 1
    return "".join(out)


def coq_cps(s):
    return "[" + "; ".join(str(ord(c)) for c in s) + "]"


def just_table(body, where, kinds):
    """`choice(( just("..").to(TokenKind::X), ... ))` -> ordered [(string, kind)]; the body may contain nothing else"""
    m = re.search(r"choice\s*\(\s*\((.*)\)\s*\)\s*\}\s*$", body, re.S)
    if not m:
        raise Shape(f"{where}: body is not a single `choice(( ... ))`")
    inner = m.group(1)
    entry = r'just\s*\(\s*"((?:[^"\\]|\\.)*)"\s*\)\s*\.\s*to\s*\(\s*TokenKind::(\w+)\s*\)\s*,?'
    rest = re.sub(entry, "", inner).strip()
    if rest:
        raise Shape(f"{where}: unrecognised alternative(s): {rest[:80]!r}")
    tab = [(unescape(a, where), k) for a, k in re.findall(entry, inner)]
    if not tab:
        raise Shape(f"{where}: empty table")
    for s, k in tab:
        if k not in kinds:
            raise Shape(f"{where}: unknown TokenKind::{k}")
    return tab


def generate(repo):
    tok_rs = strip_comments(open(f"{repo}/{PDIR}/token.rs").read())
    tkz_rs = strip_comments(open(f"{repo}/{PDIR}/tokenizer.rs").read())
    pre_rs = strip_comments(open(f"{repo}/{PDIR}/preparser.rs").read())
    files = {"token.rs": tok_rs, "tokenizer.rs": tkz_rs, "preparser.rs": pre_rs}

    # ---- TokenKind ----
    m = re.search(r"pub enum TokenKind\s*\{(.*?)\}", tok_rs, re.S)
    if not m:
        raise Shape("token.rs: `pub enum TokenKind {..}` not found")
    kinds = [k.strip() for k in m.group(1).split(",") if k.strip()]
    for k in kinds:
        if not re.fullmatch(r"[A-Z]\w*", k):
            raise Shape(f"token.rs: TokenKind variant with payload or attribute: {k!r}")
    if len(set(kinds)) != len(kinds):
        raise Shape("token.rs: duplicate TokenKind variant")
    # the struct the model's Token record mirrors
    if not re.search(r"pub struct Token\s*\{\s*pub kind\s*:\s*TokenKind\s*,\s*pub start\s*:\s*usize\s*,\s*pub length\s*:\s*usize\s*,?\s*\}", tok_rs):
        raise Shape("token.rs: `pub struct Token { kind, start, length }` changed shape")

    # ---- is_trivia ----
    body = fn_source(tok_rs, "is_trivia", "token.rs")
    m = re.search(r"\{\s*matches!\s*\(\s*self\.kind\s*,(.*)\)\s*\}\s*$", body, re.S)
    if not m:
        raise Shape("token.rs: is_trivia is not `matches!(self.kind, A | B | ..)`")
    trivia = [t.strip() for t in m.group(1).split("|")]
    for t in trivia:
        mm = re.fullmatch(r"TokenKind::(\w+)", t)
        if not mm or mm.group(1) not in kinds:
            raise Shape(f"token.rs: is_trivia alternative {t!r}")
    trivia = [t.split("::")[1] for t in trivia]
    body = fn_source(tok_rs, "is_error", "token.rs")
    if not re.search(r"\{\s*self\.kind\s*==\s*TokenKind::Error\s*\}$", body):
        raise Shape("token.rs: is_error changed shape")

    # ---- whitespace set ----
    body = fn_source(tkz_rs, "whitespace_parser", "tokenizer.rs")
    m = re.search(r'\{\s*one_of\s*\(\s*"((?:[^"\\]|\\.)*)"\s*\)\s*\.repeated\(\)\s*\.at_least\(1\)\s*\.to\(TokenKind::Whitespace\)\s*\}$', body)
    if not m:
        raise Shape("tokenizer.rs: whitespace_parser is not `one_of(\"..\").repeated().at_least(1).to(TokenKind::Whitespace)`")
    ws = unescape(m.group(1), "whitespace_parser")

    # ---- operator / punctuation tables ----
    ops = just_table(fn_source(tkz_rs, "operator_parser", "tokenizer.rs"), "operator_parser", kinds)
    puncts = just_table(fn_source(tkz_rs, "punctuation_parser", "tokenizer.rs"), "punctuation_parser", kinds)

    # ---- keywords ----
    body = fn_source(tkz_rs, "identifier_parser", "tokenizer.rs")
    m = re.search(r"\{\s*text::ident\(\)\s*\.to_slice\(\)\s*\.map\(\s*\|ident:\s*&'src str\|\s*match ident\s*\{(.*?)\}\s*\)\s*\}$", body, re.S)
    if not m:
        raise Shape("tokenizer.rs: identifier_parser is not `text::ident().to_slice().map(|ident| match ident {..})`")
    arms = m.group(1)
    arm = r'"((?:[^"\\]|\\.)*)"\s*=>\s*TokenKind::(\w+)\s*,'
    kws = [(unescape(a, "identifier_parser"), k) for a, k in re.findall(arm, arms)]
    rest = re.sub(arm, "", arms).strip()
    md = re.fullmatch(r"_\s*=>\s*TokenKind::(\w+)\s*,?", rest)
    if not md or not kws:
        raise Shape(f"tokenizer.rs: identifier_parser keyword match: unrecognised arms {rest[:80]!r}")
    ident_default = md.group(1)
    for s, k in kws + [("", ident_default)]:
        if k not in kinds:
            raise Shape(f"identifier_parser: unknown TokenKind::{k}")

    # ---- order of the top-level choice ----
    body = fn_source(tkz_rs, "token_parser", "tokenizer.rs")
    m = re.search(r"\{\s*choice\s*\(\s*\((.*)\)\s*\)\s*\}$", body, re.S)
    if not m:
        raise Shape("tokenizer.rs: token_parser is not a single `choice(( ... ))`")
    alts = [a.strip() for a in m.group(1).split(",") if a.strip()]
    order = []
    for a in alts:
        mm = re.fullmatch(r"(\w+)\(\)", a)
        if not mm or mm.group(1) not in RULES:
            raise Shape(f"tokenizer.rs: token_parser alternative {a!r} is not a known sub-parser")
        order.append(RULES[mm.group(1)])
    if sorted(order) != sorted(RULES.values()):
        raise Shape("tokenizer.rs: token_parser does not use each of the 8 sub-parsers exactly once")

    # ---- pins of the hand-transcribed functions ----
    hashes = {}
    for key in PINNED:
        fname, fn = key.split(":")
        hashes[key] = norm_hash(fn_source(files[fname], fn, fname))
    if "--pins" in sys.argv:
        for k, v in hashes.items():
            print(f'    "{k}": "{v}",')
    bad = [k for k in PINNED if hashes[k] != PINNED[k]]
    if bad:
        raise Shape("hand-transcribed function(s) changed (re-transcribe Lexer/Model.v, then update PINNED): " + ", ".join(bad))

    # ---- emit ----
    L = []
    L.append("(* GENERATED from parser/{token,tokenizer,preparser}.rs by translators/lexer_tables.py; do not edit *)")
    L.append("From Coq Require Import List NArith String.")
    L.append("Import ListNotations.")
    L.append("Local Open Scope N_scope.")
    L.append("")
    L.append("(* token.rs: pub enum TokenKind *)")
    L.append("(* constructors are the Rust variant names prefixed with K (`Type`, `Set`.. are Coq keywords) *)")
    L.append("Inductive TokenKind : Set :=")
    for k in kinds:
        L.append(f"  | K{k}")
    L[-1] += "."
    L.append("")
    L.append("Definition all_kinds : list TokenKind :=\n  [" + "; ".join("K" + k for k in kinds) + "].")
    L.append("")
    L.append("(* Debug name of each variant (used by the driver only) *)")
    L.append("Definition kind_name (k : TokenKind) : string :=\n  match k with")
    for k in kinds:
        L.append(f'  | K{k} => "{k}"%string')
    L.append("  end.")
    L.append("")
    L.append("(* position in the enum (used by the driver / Parser model for compact printing) *)")
    L.append("Definition kind_code (k : TokenKind) : N :=\n  match k with")
    for i, k in enumerate(kinds):
        L.append(f"  | K{k} => {i}")
    L.append("  end.")
    L.append("")
    L.append("(* token.rs: Token::is_trivia *)")
    L.append("Definition is_trivia_kind (k : TokenKind) : bool :=\n  match k with\n  | " + " | ".join("K" + t for t in trivia) + " => true\n  | _ => false\n  end.")
    L.append("")
    L.append("(* sub-parsers of tokenizer.rs token_parser *)")
    L.append("Inductive Rule : Set := " + " | ".join(sorted(set(RULES.values()))) + ".")
    L.append("(* tokenizer.rs token_parser: the ordered choice *)")
    L.append("Definition token_parser_order : list Rule :=\n  [" + "; ".join(order) + "].")
    L.append("")
    L.append("(* tokenizer.rs whitespace_parser: the code points of one_of(..) *)")
    L.append(f"Definition whitespace_chars : list N := {coq_cps(ws)}.")
    L.append("")

    def table(name, tab, comment):
        L.append(f"(* {comment} *)")
        L.append(f"Definition {name} : list (list N * TokenKind) :=\n  [ " +
                 ";\n    ".join(f"({coq_cps(s)}, K{k})" + (f" (* {s} *)" if not any(c in '()*"' for c in s) else "") for s, k in tab) + " ].")
        L.append("")
    table("operator_table", ops, "tokenizer.rs operator_parser: ordered choice of just(s).to(kind)")
    table("punctuation_table", puncts, "tokenizer.rs punctuation_parser: ordered choice of just(s).to(kind)")
    table("keyword_table", kws, "tokenizer.rs identifier_parser: match ident { s => kind, .. }")
    L.append(f"Definition ident_default_kind : TokenKind := K{ident_default}.")
    L.append("")
    L.append("(* pins of the hand-transcribed functions (see translators/lexer_tables.py) *)")
    for k in sorted(hashes):
        L.append(f"(*   {k} {hashes[k]} *)")
    return "\n".join(L) + "\n"


if __name__ == "__main__":
    args = [a for a in sys.argv[1:] if not a.startswith("--")]
    out = generate(args[0] if args else "/repo")
    if "--pins" not in sys.argv:
        sys.stdout.write(out)
