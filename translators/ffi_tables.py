#!/usr/bin/env python3
"""ffi_serde.rs, interpreter.rs, interpreter/serde_impl.rs, types.rs, types/serde_impl.rs, interner.rs, Cargo.lock
   -> Tables/FfiTables.v

Extracted (all declarative):
  * declaration order of `enum FfiValue`, `enum PType` (derive(Serialize, Deserialize): wire index = declaration order)
  * declaration order of `enum Value`, `enum Type` (informational + arm coverage)
  * hand-written writers: every `serialize_{struct,unit}_variant("<Enum>", idx, "<Variant>"[, n])` of
    `impl Serialize for Value` / `impl Serialize for Type`, and which variants they refuse (`=> Err(`)
  * hand-written readers: order of the `enum Field { .. }` and of the VARIANTS list given to `deserialize_enum`
  * the heads of the match arms of `Value::to_ffi_value` and `FfiValue::to_value`
  * field order of `struct RecordTypeField`
The translator raises when the source no longer has the shape the Gallina model was written for
(new/removed variant, changed payload type, serde attribute, other bincode/slotmap major version).
"""
import re, sys

TARGET = "FfiTables.v"

EXPECT_FFI = {
    "ErrorV": "", "Unit": "", "Number": "f64", "String": "String", "Array": "Vec<FfiValue>",
    "Tuple": "Vec<FfiValue>", "Record": "Vec<(String,FfiValue)>", "Code": "ExprNodeId",
    "TaggedUnion": "u64,Box<FfiValue>",
}
EXPECT_VALUE = {
    "ErrorV": "ExprNodeId", "Unit": "", "Number": "f64", "String": "Symbol", "Array": "Vec<Value>",
    "Record": "Vec<(Symbol,Value)>", "Tuple": "Vec<Value>",
    "Closure": "ExprNodeId,Vec<Symbol>,Environment<(Value,EvalStage)>", "Fixpoint": "Symbol,ExprNodeId",
    "Code": "ExprNodeId", "ExternalFn": "ExtFunction", "Store": "Rc<RefCell<Value>>",
    "TaggedUnion": "u64,Box<Value>", "ConstructorFn": "u64,Symbol,TypeNodeId",
}
EXPECT_TYPE = {
    "Primitive": "PType", "Array": "TypeNodeId", "Tuple": "Vec<TypeNodeId>", "Record": "Vec<RecordTypeField>",
    "Function": "arg:TypeNodeId,ret:TypeNodeId", "Ref": "TypeNodeId", "Code": "TypeNodeId", "Union": "Vec<TypeNodeId>",
    "UserSum": "name:Symbol,variants:Vec<(Symbol,Option<TypeNodeId>)>", "Boxed": "TypeNodeId",
    "Intermediate": "Arc<RwLock<TypeVar>>", "TypeScheme": "TypeSchemeId", "TypeAlias": "Symbol",
    "Any": "", "Failure": "", "Unknown": "",
}
EXPECT_PTYPE = {"Unit": "", "Int": "", "Numeric": "", "String": ""}
EXPECT_RTF = [("key", "Symbol"), ("ty", "TypeNodeId"), ("has_default", "bool")]
# payload shapes written by the hand-written writers: variant -> list of field labels
EXPECT_VALUE_WRITER_FIELDS = {
    "ErrorV": ["0"], "Unit": None, "Number": ["0"], "String": ["0"], "Array": ["0"], "Record": ["0"], "Tuple": ["0"],
    "Fixpoint": ["0", "1"], "Code": ["0"], "TaggedUnion": ["0", "1"], "ConstructorFn": ["0", "1", "2"],
}
EXPECT_TYPE_WRITER_FIELDS = {
    "Primitive": ["0"], "Array": ["0"], "Tuple": ["0"], "Record": ["0"], "Function": ["arg", "ret"], "Ref": ["0"],
    "Code": ["0"], "Union": ["0"], "UserSum": ["name", "variants"], "Boxed": ["0"], "TypeAlias": ["0"],
    "Any": None, "Failure": None, "Unknown": None,
}


class Shape(RuntimeError):
    pass


def need(cond, msg):
    if not cond:
        raise Shape("translator ffi_tables: " + msg)


def strip_comments(src):
    src = re.sub(r"/\*.*?\*/", "", src, flags=re.S)
    return re.sub(r"//[^\n]*", "", src)


def balanced(src, start, open_c="{", close_c="}"):
    """src[start] == open_c; returns index just after the matching close"""
    need(src[start] == open_c, f"expected {open_c!r} at offset {start}")
    depth = 0
    for i in range(start, len(src)):
        c = src[i]
        if c == open_c:
            depth += 1
        elif c == close_c:
            depth -= 1
            if depth == 0:
                return i + 1
    raise Shape("translator ffi_tables: unbalanced braces")


def split_top(body, sep=","):
    out, depth, cur = [], 0, []
    for c in body:
        if c in "([{<":
            depth += 1
        elif c in ")]}>":
            depth -= 1
        if c == sep and depth == 0:
            out.append("".join(cur))
            cur = []
        else:
            cur.append(c)
    out.append("".join(cur))
    return [x.strip() for x in out if x.strip()]


def enum_decl(src, name, want_derive=None):
    """[(variant, normalised payload)] in declaration order, plus the attribute block above the enum"""
    m = re.search(r"((?:#\[[^\]]*\]\s*)*)pub enum " + name + r"\s*\{", src)
    need(m, f"`pub enum {name}` not found")
    attrs = m.group(1)
    end = balanced(src, m.end() - 1)
    body = src[m.end():end - 1]
    vs = []
    for item in split_top(body):
        item = re.sub(r"#\[[^\]]*\]\s*", "", item)
        mm = re.match(r"(\w+)\s*(?:\((.*)\)|\{(.*)\})?\s*$", item, re.S)
        need(mm, f"enum {name}: cannot parse variant `{item[:60]}`")
        if mm.group(3) is not None:
            payload = ",".join(re.sub(r"\s+", "", f) for f in split_top(mm.group(3)))
        else:
            payload = ",".join(re.sub(r"\s+", "", f) for f in split_top(mm.group(2) or ""))
        vs.append((mm.group(1), payload))
    if want_derive:
        for d in want_derive:
            need(re.search(r"derive\([^)]*\b" + d + r"\b", attrs), f"enum {name} no longer derives {d}")
        need("serde(" not in attrs, f"enum {name} carries a #[serde(..)] attribute the model does not know")
        need("serde(" not in body, f"a variant of enum {name} carries a #[serde(..)] attribute")
    return vs


def check_decl(name, vs, expect):
    got = dict(vs)
    need(len(got) == len(vs), f"enum {name}: duplicate variant")
    need(set(got) == set(expect), f"enum {name}: variant set changed: {sorted(set(got) ^ set(expect))}")
    for k in expect:
        need(got[k] == expect[k], f"enum {name}::{k}: payload `{got[k]}` (model written for `{expect[k]}`)")


def impl_block(src, header_re, what):
    m = re.search(header_re, src)
    need(m, f"{what} not found")
    st = src.index("{", m.end() - 1)
    return src[st:balanced(src, st)]


def writer(src, enum, expect_fields):
    blk = impl_block(src, r"impl\s+Serialize\s+for\s+" + enum + r"\s*\{", f"impl Serialize for {enum}")
    m = re.search(r"match\s+self\s*\{", blk)
    need(m, f"Serialize for {enum}: `match self` not found")
    body = blk[m.end():balanced(blk, m.end() - 1) - 1]
    arms = re.split(r"(?=\b" + enum + r"::\w+\s*(?:\([^)]*\)|\{[^}]*\})?\s*=>)", body)
    triples, refused = [], []
    for arm in arms:
        mm = re.match(enum + r"::(\w+)", arm)
        if not mm:
            need(not arm.strip(), f"Serialize for {enum}: unexpected text `{arm.strip()[:50]}`")
            continue
        v = mm.group(1)
        calls = re.findall(r"serialize_(struct|unit)_variant\(\s*\"(\w+)\"\s*,\s*(\d+)\s*,\s*\"(\w+)\"\s*(?:,\s*(\d+)\s*)?\)", arm)
        if not calls:
            need(re.search(r"=>\s*Err\(", arm), f"Serialize for {enum}::{v}: neither serialize_*_variant nor Err")
            refused.append(v)
            continue
        need(len(calls) == 1, f"Serialize for {enum}::{v}: more than one serialize_*_variant")
        kind, en, idx, vn, nf = calls[0]
        need(en == enum, f"Serialize for {enum}::{v}: enum name `{en}`")
        need(vn == v, f"Serialize for {enum}::{v}: writes the variant name `{vn}`")
        fields = re.findall(r"serialize_field\(\s*\"(\w+)\"\s*,\s*(\w+)\s*\)", arm)
        labels = [f[0] for f in fields]
        exp = expect_fields.get(v, "missing")
        need(exp != "missing", f"Serialize for {enum}::{v}: the model has no such serialisable variant")
        if kind == "unit":
            need(exp is None and not labels, f"Serialize for {enum}::{v}: payload shape changed")
        else:
            need(exp == labels and int(nf) == len(labels), f"Serialize for {enum}::{v}: fields {labels} (model: {exp})")
        triples.append((v, int(idx)))
    need(set(t[0] for t in triples) == set(expect_fields), f"Serialize for {enum}: serialisable set changed")
    return triples, refused


def reader(src, enum):
    blk = impl_block(src, r"impl<'de>\s+Deserialize<'de>\s+for\s+" + enum + r"\s*\{", f"impl Deserialize for {enum}")
    m = re.search(r"#\[serde\(field_identifier[^\]]*\)\]\s*enum Field\s*\{", blk)
    need(m, f"Deserialize for {enum}: `#[serde(field_identifier..)] enum Field` not found")
    fields = [x for x in split_top(blk[m.end():balanced(blk, m.end() - 1) - 1])]
    for f in fields:
        need(re.fullmatch(r"\w+", f), f"Deserialize for {enum}: Field variant `{f}`")
    m = re.search(r"deserialize_enum\(\s*\"" + enum + r"\"\s*,\s*&\[", blk)
    need(m, f"Deserialize for {enum}: deserialize_enum(\"{enum}\", &[..]) not found")
    lst = blk[m.end():balanced(blk, m.end() - 1, "[", "]") - 1]
    variants = re.findall(r"\"(\w+)\"", lst)
    # which Field variant builds which enum variant:  Field::X => { ... Ok(Enum::Y ...
    vm = re.search(r"match\s+variant\s*\{", blk)
    need(vm, f"Deserialize for {enum}: `match variant` not found")
    mbody = blk[vm.end():balanced(blk, vm.end() - 1) - 1]
    builds = []
    for arm in re.split(r"(?=\bField::\w+\s*=>)", mbody):
        mm = re.match(r"Field::(\w+)\s*=>", arm)
        if not mm:
            continue
        oks = re.findall(r"Ok\(\s*" + enum + r"::(\w+)", arm)
        need(len(oks) == 1, f"Deserialize for {enum}: arm Field::{mm.group(1)} builds {oks}")
        builds.append((mm.group(1), oks[0]))
    return fields, variants, builds


def match_arms(src, fn_re, enum_from, what):
    m = re.search(fn_re, src)
    need(m, f"{what} not found")
    st = src.index("{", m.end() - 1)
    blk = src[st:balanced(src, st)]
    mm = re.search(r"match\s+self\s*\{", blk)
    need(mm, f"{what}: `match self` not found")
    body = blk[mm.end():balanced(blk, mm.end() - 1) - 1]
    arms = []
    # top-level arms only: track brace/paren depth
    depth, i, starts = 0, 0, []
    for mo in re.finditer(r"[(){}\[\]]|\b" + enum_from + r"::\w+", body):
        t = mo.group(0)
        if t in "([{":
            depth += 1
        elif t in ")]}":
            depth -= 1
        elif depth == 0:
            starts.append(mo.start())
    starts.append(len(body))
    for a, b in zip(starts, starts[1:]):
        arm = body[a:b]
        h = re.match(enum_from + r"::(\w+)[^=]*=>\s*(.*)", arm, re.S)
        need(h, f"{what}: cannot parse arm `{arm[:50]}`")
        arms.append((h.group(1), h.group(2)))
    return arms


def coq_list(xs, f):
    return "[" + "; ".join(f(x) for x in xs) + "]"


def qs(s):
    return '"%s"' % s


def generate(repo):
    base = f"{repo}/crates/lib/mimium-lang/src"
    ffi = strip_comments(open(f"{base}/runtime/ffi_serde.rs").read())
    interp = strip_comments(open(f"{base}/interpreter.rs").read())
    vser = strip_comments(open(f"{base}/interpreter/serde_impl.rs").read())
    types = strip_comments(open(f"{base}/types.rs").read())
    tser = strip_comments(open(f"{base}/types/serde_impl.rs").read())
    intern = strip_comments(open(f"{base}/interner.rs").read())
    lock = open(f"{repo}/Cargo.lock").read()

    # -- wire format libraries the byte-level model was written for
    need(re.search(r'name = "bincode"\nversion = "1\.3\.\d+"', lock), "Cargo.lock: bincode is not 1.3.x (the wire-format model is for bincode 1.3 fixint LE)")
    need(re.search(r'name = "slotmap"\nversion = "1\.0\.\d+"', lock), "Cargo.lock: slotmap is not 1.0.x (key = {idx:u32, version:u32}, version|=1 on read)")
    for nm, inner in (("Symbol", "usize"), ("ExprNodeId", "ExprKey"), ("TypeNodeId", "TypeKey")):
        need(re.search(r"#\[derive\([^)]*Serialize, Deserialize\)\]\s*#\[serde\(transparent\)\]\s*pub struct " + nm + r"\(pub " + inner + r"\);", intern),
             f"interner.rs: `#[serde(transparent)] pub struct {nm}(pub {inner});` with derived serde not found")
    need(re.search(r"slotmap::new_key_type!\s*\{\s*pub struct ExprKey;\s*pub struct TypeKey;\s*\}", intern), "interner.rs: slotmap key types changed")
    for fn, ty in (("serialize_macro_args", None), ("serialize_value", None)):
        need(re.search(r"pub fn " + fn + r"\b", ffi), f"ffi_serde.rs: {fn} not found")
    need(len(re.findall(r"bincode::serialize\(", ffi)) == 2 and len(re.findall(r"bincode::deserialize\(", ffi)) == 2,
         "ffi_serde.rs: expected exactly two bincode::serialize and two bincode::deserialize calls (default fixint options)")
    need(re.search(r"let ffi_args: Vec<\(FfiValue, TypeNodeId\)> = bincode::deserialize\(data\)", ffi), "deserialize_macro_args: wire type is no longer Vec<(FfiValue, TypeNodeId)>")
    need(re.search(r"let ffi_value: FfiValue = bincode::deserialize\(data\)", ffi), "deserialize_value: wire type is no longer FfiValue")

    # -- enum declarations
    ffi_vs = enum_decl(ffi, "FfiValue", ["Serialize", "Deserialize"])
    check_decl("FfiValue", ffi_vs, EXPECT_FFI)
    val_vs = enum_decl(interp, "Value")
    check_decl("Value", val_vs, EXPECT_VALUE)
    ty_vs = enum_decl(types, "Type")
    check_decl("Type", ty_vs, EXPECT_TYPE)
    pt_vs = enum_decl(types, "PType", ["Serialize", "Deserialize"])
    check_decl("PType", pt_vs, EXPECT_PTYPE)
    m = re.search(r"#\[derive\(([^)]*)\)\]\s*pub struct RecordTypeField\s*\{([^}]*)\}", types)
    need(m and "Serialize" in m.group(1) and "Deserialize" in m.group(1), "types.rs: struct RecordTypeField with derived serde not found")
    rtf = [tuple(re.sub(r"\s+", "", x).replace("pub", "", 1).split(":")) for x in split_top(m.group(2))]
    need(rtf == EXPECT_RTF, f"RecordTypeField fields {rtf} (model: {EXPECT_RTF})")

    # -- hand-written serde
    v_tr, v_ref = writer(vser, "Value", EXPECT_VALUE_WRITER_FIELDS)
    v_fields, v_variants, v_builds = reader(vser, "Value")
    t_tr, t_ref = writer(tser, "Type", EXPECT_TYPE_WRITER_FIELDS)
    t_fields, t_variants, t_builds = reader(tser, "Type")
    need(set(v_ref) | set(t[0] for t in v_tr) == set(EXPECT_VALUE), "Serialize for Value does not cover every Value variant")
    need(set(t_ref) | set(t[0] for t in t_tr) == set(EXPECT_TYPE), "Serialize for Type does not cover every Type variant")

    # -- conversion arms
    to_ffi = match_arms(ffi, r"pub fn to_ffi_value\(&self\)\s*->\s*Result<FfiValue, String>\s*\{", "Value", "Value::to_ffi_value")
    arms_ffi = []
    for v, rhs in to_ffi:
        oks = re.findall(r"\bOk\(\s*FfiValue::(\w+)", rhs)
        if oks:
            need(len(oks) == 1 and not re.search(r"\bErr\(", rhs), f"to_ffi_value arm Value::{v}: ambiguous result")
            arms_ffi.append((v, oks[0]))
        else:
            need(re.search(r"\bErr\(", rhs), f"to_ffi_value arm Value::{v}: neither Ok(FfiValue::..) nor Err(..)")
            arms_ffi.append((v, None))
    need([a[0] for a in arms_ffi] and set(a[0] for a in arms_ffi) == set(EXPECT_VALUE) and len(arms_ffi) == len(EXPECT_VALUE),
         "to_ffi_value: arms do not cover each Value variant exactly once")
    to_val = match_arms(ffi, r"pub fn to_value\(self\)\s*->\s*Value\s*\{", "FfiValue", "FfiValue::to_value")
    arms_val = []
    for v, rhs in to_val:
        outs = re.findall(r"\bValue::(\w+)", re.sub(r"FfiValue::\w+", "", rhs))
        need(len(outs) == 1, f"to_value arm FfiValue::{v}: builds {outs}")
        arms_val.append((v, outs[0]))
    need(set(a[0] for a in arms_val) == set(EXPECT_FFI) and len(arms_val) == len(EXPECT_FFI), "to_value: arms do not cover each FfiValue variant exactly once")

    o = []
    o.append("(* GENERATED by translators/ffi_tables.py from runtime/ffi_serde.rs, interpreter.rs, interpreter/serde_impl.rs,\n"
             "   types.rs, types/serde_impl.rs, interner.rs, Cargo.lock; do not edit *)")
    o.append("From Coq Require Import NArith List String.\nImport ListNotations.\nLocal Open Scope string_scope.\n")
    sl = lambda xs: coq_list(xs, qs)
    pr = lambda xs: coq_list(xs, lambda t: "(%s, %d%%N)" % (qs(t[0]), t[1]))
    pp = lambda xs: coq_list(xs, lambda t: "(%s, %s)" % (qs(t[0]), qs(t[1])))
    po = lambda xs: coq_list(xs, lambda t: "(%s, %s)" % (qs(t[0]), "Some " + qs(t[1]) if t[1] else "None"))
    o.append("(* declaration order = wire index (derive(Serialize, Deserialize), bincode u32 variant index) *)")
    o.append(f"Definition ffi_value_variants : list string := {sl([v for v, _ in ffi_vs])}.")
    o.append(f"Definition ptype_variants : list string := {sl([v for v, _ in pt_vs])}.")
    o.append("(* declaration order (informational; the hand-written serde does not depend on it) *)")
    o.append(f"Definition value_variants : list string := {sl([v for v, _ in val_vs])}.")
    o.append(f"Definition type_variants : list string := {sl([v for v, _ in ty_vs])}.")
    o.append("(* impl Serialize for Value: (variant, index written); refused variants *)")
    o.append(f"Definition value_ser_index : list (string * N) := {pr(v_tr)}.")
    o.append(f"Definition value_ser_refused : list string := {sl(v_ref)}.")
    o.append("(* impl Deserialize for Value: order of `enum Field`, VARIANTS list, Field -> built variant *)")
    o.append(f"Definition value_de_fields : list string := {sl(v_fields)}.")
    o.append(f"Definition value_de_variants : list string := {sl(v_variants)}.")
    o.append(f"Definition value_de_builds : list (string * string) := {pp(v_builds)}.")
    o.append("(* impl Serialize / Deserialize for Type *)")
    o.append(f"Definition type_ser_index : list (string * N) := {pr(t_tr)}.")
    o.append(f"Definition type_ser_refused : list string := {sl(t_ref)}.")
    o.append(f"Definition type_de_fields : list string := {sl(t_fields)}.")
    o.append(f"Definition type_de_variants : list string := {sl(t_variants)}.")
    o.append(f"Definition type_de_builds : list (string * string) := {pp(t_builds)}.")
    o.append("(* Value::to_ffi_value: Value variant -> Some FfiValue variant built / None = Err;  FfiValue::to_value: FfiValue variant -> Value variant built *)")
    o.append(f"Definition to_ffi_arms : list (string * option string) := {po(arms_ffi)}.")
    o.append(f"Definition to_value_arms : list (string * string) := {pp(arms_val)}.")
    return "\n".join(o) + "\n"


if __name__ == "__main__":
    sys.stdout.write(generate(sys.argv[1] if len(sys.argv) > 1 else "/repo"))
