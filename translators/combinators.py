#!/usr/bin/env python3
"""codegen_combinators.rs + translate_staging.rs -> Tables/Combinators.v

 * `registered`: every `mk_cls("name", fun, fty(vec![kinds...], ret))` entry of
   `codegen_combinator_signatures()` (name, implementing Rust function, argument kinds), in source order;
 * `emitted`: every `make_apply("name", vec![...])` / `make_apply1` / `make_apply0` / `make_apply_str`
   call site of translate_staging.rs outside `#[cfg(test)]` (name, number of arguments), in source order.

The generator raises when the source no longer has the expected shape (never emits a partial table)."""
import re, sys

TARGET = "Combinators.v"

KINDS = {"f": "KCode", "s": "KStr", "i": "KInt", "af": "KArrCode", "as_": "KArrStr", "ts": "KPoly",
         "Type::Array(i).into_id()": "KArrInt"}

# the shorthand type builders the kinds above rely on (checked literally)
SHORTHANDS = [
    r"let\s+f\s*=\s*numeric!\(\)\s*;",
    r"let\s+s\s*=\s*string_t!\(\)\s*;",
    r"let\s+i\s*=\s*integer!\(\)\s*;",
    r"let\s+af\s*=\s*Type::Array\(f\)\.into_id\(\)\s*;",
    r"let\s+as_\s*=\s*Type::Array\(s\)\.into_id\(\)\s*;",
    r"let\s+ts\s*=\s*Type::TypeScheme\(TypeSchemeId\(u64::MAX\s*-\s*1\)\)\.into_id\(\)\s*;",
]


def strip_comments(src):
    out, i, n = [], 0, len(src)
    while i < n:
        if src.startswith("//", i):
            j = src.find("\n", i)
            i = n if j < 0 else j
            continue
        if src.startswith("/*", i):
            j = src.find("*/", i)
            i = n if j < 0 else j + 2
            continue
        if src[i] == '"':
            j = i + 1
            while j < n and src[j] != '"':
                j += 2 if src[j] == "\\" else 1
            out.append(src[i:j + 1])
            i = j + 1
            continue
        out.append(src[i])
        i += 1
    return "".join(out)


def split_top(s):
    """split on top-level commas; drops an empty trailing piece"""
    parts, depth, cur, instr = [], 0, [], False
    i = 0
    while i < len(s):
        c = s[i]
        if instr:
            cur.append(c)
            if c == "\\":
                cur.append(s[i + 1]); i += 1
            elif c == '"':
                instr = False
        elif c == '"':
            instr = True; cur.append(c)
        elif c in "([{":
            depth += 1; cur.append(c)
        elif c in ")]}":
            depth -= 1; cur.append(c)
        elif c == "," and depth == 0:
            parts.append("".join(cur).strip()); cur = []
        else:
            cur.append(c)
        i += 1
    last = "".join(cur).strip()
    if last:
        parts.append(last)
    return parts


def matching(s, i):
    """index of the bracket closing the one at s[i]"""
    op = s[i]
    cl = {"(": ")", "[": "]", "{": "}"}[op]
    depth, j, instr = 0, i, False
    while j < len(s):
        c = s[j]
        if instr:
            if c == "\\":
                j += 1
            elif c == '"':
                instr = False
        elif c == '"':
            instr = True
        elif c in "([{":
            depth += 1
        elif c in ")]}":
            depth -= 1
            if depth == 0:
                if c != cl:
                    raise RuntimeError("translator combinators: unbalanced brackets")
                return j
        j += 1
    raise RuntimeError("translator combinators: unbalanced brackets")


def registered(repo):
    src = strip_comments(open(f"{repo}/crates/lib/mimium-lang/src/plugin/codegen_combinators.rs").read())
    m = re.search(r"pub fn codegen_combinator_signatures\(\)\s*->\s*Vec<ExtClsInfo>\s*\{", src)
    if not m:
        raise RuntimeError("translator combinators: codegen_combinator_signatures() not found")
    body_end = matching(src, m.end() - 1)
    body = src[m.end():body_end]
    for pat in SHORTHANDS:
        if len(re.findall(pat, body)) != 1:
            raise RuntimeError(f"translator combinators: shorthand type builder `{pat}` not found exactly once")
    if not re.search(r"fn fty\(args: Vec<TypeNodeId>, ret: TypeNodeId\) -> TypeNodeId \{\s*Type::Function \{\s*arg: Type::Tuple\(args\)\.into_id\(\),\s*ret,\s*\}\s*\.into_id\(\)\s*\}", body):
        raise RuntimeError("translator combinators: helper fty(args, ret) changed shape")
    vm = re.search(r"\n\s*vec!\[", body)
    if not vm:
        raise RuntimeError("translator combinators: registration vec![...] not found")
    vopen = body.index("[", vm.start())
    vclose = matching(body, vopen)
    if body[vclose + 1:].strip() != "":
        raise RuntimeError("translator combinators: code after the registration vec![...]")
    entries = split_top(body[vopen + 1:vclose])
    res = []
    for e in entries:
        em = re.fullmatch(r"mk_cls\((.*)\)", e, re.S)
        if not em:
            raise RuntimeError(f"translator combinators: unexpected registration entry `{e[:60]}`")
        a = split_top(em.group(1))
        if len(a) != 3:
            raise RuntimeError(f"translator combinators: mk_cls with {len(a)} arguments")
        nm = re.fullmatch(r'"(\w+)"', a[0])
        fn = re.fullmatch(r"\w+", a[1])
        ft = re.fullmatch(r"fty\((.*)\)", a[2], re.S)
        if not (nm and fn and ft):
            raise RuntimeError(f"translator combinators: unexpected mk_cls shape `{e[:80]}`")
        fa = split_top(ft.group(1))
        if len(fa) != 2 or fa[1] != "f":
            raise RuntimeError(f"translator combinators: fty(...) of {nm.group(1)} does not return a code value `f`")
        vv = re.fullmatch(r"vec!\[(.*)\]", fa[0], re.S)
        if not vv:
            raise RuntimeError(f"translator combinators: fty argument list of {nm.group(1)} is not vec![...]")
        kinds = []
        for k in split_top(vv.group(1)):
            k = re.sub(r"\s+", "", k)
            if k not in KINDS:
                raise RuntimeError(f"translator combinators: unknown argument type `{k}` for {nm.group(1)}")
            kinds.append(KINDS[k])
        res.append((nm.group(1), a[1], kinds))
    if len(res) != len(re.findall(r"\bmk_cls\(\s*\"", body)):
        raise RuntimeError("translator combinators: mk_cls count mismatch")
    names = [r[0] for r in res]
    if len(set(names)) != len(names):
        raise RuntimeError("translator combinators: a combinator is registered twice")
    return res


HELPERS = ["make_apply", "make_apply1", "make_apply0", "make_apply_str"]


def emitted(repo):
    src = strip_comments(open(f"{repo}/crates/lib/mimium-lang/src/compiler/translate_staging.rs").read())
    t = src.find("#[cfg(test)]")
    if t >= 0:
        src = src[:t]
    # the helpers must have the expected definitions
    for pat in [r"fn make_apply\(name: &str, args: Vec<ExprNodeId>\) -> ExprNodeId \{\s*let f = Expr::Var\(name\.to_symbol\(\)\)\.into_id_without_span\(\);\s*Expr::Apply\(f, args\)\.into_id_without_span\(\)\s*\}",
                r"fn make_apply1\(name: &str, arg: ExprNodeId\) -> ExprNodeId \{\s*make_apply\(name, vec!\[arg\]\)\s*\}",
                r"fn make_apply0\(name: &str\) -> ExprNodeId \{\s*make_apply\(name, vec!\[\]\)\s*\}",
                r"fn make_apply_str\(name: &str, sym: Symbol\) -> ExprNodeId \{\s*let lit = sym_to_string_literal\(sym\);\s*make_apply1\(name, lit\)\s*\}"]:
        if len(re.findall(pat, src)) != 1:
            raise RuntimeError("translator combinators: a make_apply helper changed shape")
    res = []
    for m in re.finditer(r"\b(make_apply(?:1|0|_str)?)\(", src):
        helper = m.group(1)
        if src[:m.start()].rstrip().endswith("fn"):
            continue
        close = matching(src, m.end() - 1)
        args = split_top(src[m.end():close])
        if not args:
            raise RuntimeError("translator combinators: make_apply call without arguments")
        nm = re.fullmatch(r'"(\w+)"', args[0])
        if not nm:
            if args[0] == "name":  # inside the helper definitions themselves
                continue
            raise RuntimeError(f"translator combinators: combinator name is not a string literal: `{args[0][:40]}`")
        if helper == "make_apply":
            if len(args) != 2:
                raise RuntimeError("translator combinators: make_apply with != 2 arguments")
            vv = re.fullmatch(r"vec!\[(.*)\]", args[1], re.S)
            if not vv:
                raise RuntimeError(f"translator combinators: argument list of make_apply(\"{nm.group(1)}\") is not a vec![...] literal")
            n = len(split_top(vv.group(1)))
        elif helper == "make_apply0":
            if len(args) != 1:
                raise RuntimeError("translator combinators: make_apply0 with extra arguments")
            n = 0
        else:
            if len(args) != 2:
                raise RuntimeError(f"translator combinators: {helper} with != 2 arguments")
            n = 1
        res.append((nm.group(1), n))
    if len(res) < 20:
        raise RuntimeError("translator combinators: suspiciously few make_apply call sites")
    return res


def generate(repo):
    reg = registered(repo)
    emi = emitted(repo)
    out = ["(* GENERATED from plugin/codegen_combinators.rs and compiler/translate_staging.rs by",
           "   translators/combinators.py; do not edit *)",
           "From Coq Require Import List String.",
           "Import ListNotations.",
           "Local Open Scope string_scope.",
           "",
           "(* argument kinds of a registered combinator: f | s | i | [f] | [s] | [i] | type scheme *)",
           "Inductive akind := KCode | KStr | KInt | KArrCode | KArrStr | KArrInt | KPoly.",
           "",
           "(* codegen_combinator_signatures(): (registered name, implementing function, argument kinds) *)",
           "Definition registered : list (string * string * list akind) := ["]
    out.append(";\n".join(f'  ("{n}", "{f}", [{"; ".join(k)}])' for n, f, k in reg))
    out.append("].")
    out.append("")
    out.append("(* make_apply* call sites of translate_staging.rs: (combinator name, number of arguments) *)")
    out.append("Definition emitted : list (string * nat) := [")
    out.append(";\n".join(f'  ("{n}", {k})' for n, k in emi))
    out.append("].")
    out.append("")
    return "\n".join(out)


if __name__ == "__main__":
    sys.stdout.write(generate(sys.argv[1] if len(sys.argv) > 1 else "/repo"))
