#!/usr/bin/env python3
"""token.rs + green.rs + cst_parser.rs -> Tables/TokenKinds.v   (tables of the CST parser model, C04)

Translated (regenerated on every run):
  * `pub enum TokenKind { .. }` (token.rs), variants in declaration order -> parser_token_kinds
    (Coq checks it against LexerTables.all_kinds, the type the Parser model shares with the Lexer model)
  * `pub enum SyntaxKind { .. }` (green.rs)                              -> Inductive SyntaxKind, syntax_name
  * `const MAX_LOOKAHEAD: usize = N;` (cst_parser.rs)                    -> MAX_LOOKAHEAD
  * the `match` of `get_infix_precedence` (binding powers)               -> infix_table (ordered arms)
  * the `matches!` of `get_prefix_precedence`                            -> prefix_ops
Pinned: every other function of cst_parser.rs and the tree-builder functions of green.rs are transcribed by
hand in Parser/Model.v; the comment-stripped, whitespace-normalised text of each must hash to the value
recorded in PINNED, otherwise the translator raises (re-transcribe the function, then update the pin).
The set of `fn`s of `impl Parser` must be exactly the pinned set plus the two translated ones.
"""
import hashlib, re, sys

TARGET = "TokenKinds.v"
PDIR = "crates/lib/mimium-lang/src/compiler/parser"

PINNED = {
    "cst_parser.rs:add_error": "ad3739e83124ef62",
    "cst_parser.rs:bump": "e0195fb3d20f3d63",
    "cst_parser.rs:check": "8171a44dde63a615",
    "cst_parser.rs:current_token": "0cdfcd372e81934f",
    "cst_parser.rs:current_token_index": "22b99fb306ed4b6b",
    "cst_parser.rs:emit_node": "3294ec6bd14b6042",
    "cst_parser.rs:expect": "342002afccb576c6",
    "cst_parser.rs:expect_all": "e3f813a05768902e",
    "cst_parser.rs:expects": "a1ac547293d24675",
    "cst_parser.rs:find_macro_expand_after_path": "d4fb5b166c6d1b3c",
    "cst_parser.rs:has_trailing_linebreak": "58fcf2f2c7110d37",
    "cst_parser.rs:invalid_syntax": "15d94f886caea9e5",
    "cst_parser.rs:is_at_end": "d8955e9842817997",
    "cst_parser.rs:is_record_expr": "378b91bb96ecab85",
    "cst_parser.rs:is_tuple_expr": "e38d3d274ae0740f",
    "cst_parser.rs:is_tuple_pattern_in_constructor": "a3173c085e382f1f",
    "cst_parser.rs:is_type_ident_after_pipe": "76310e8006b64d8f",
    "cst_parser.rs:is_type_start_after_pipe": "078ebdd962b4bf15",
    "cst_parser.rs:new": "5b9ad179f479e65b",
    "cst_parser.rs:parse": "918cd0456efc8a02",
    "cst_parser.rs:parse_arg_list": "05cd1a5dd58fded1",
    "cst_parser.rs:parse_array_expr": "74771fc67d5b338e",
    "cst_parser.rs:parse_assignment_expr": "af3d3655e17abfbb",
    "cst_parser.rs:parse_block_expr": "d83c6d55e2e4a422",
    "cst_parser.rs:parse_bracket_expr": "a3a385ba83bd3d2e",
    "cst_parser.rs:parse_cst": "7059498a806699b2",
    "cst_parser.rs:parse_escape_expr": "f7ce7ff9d0243079",
    "cst_parser.rs:parse_expr": "39856c2b9ec968d5",
    "cst_parser.rs:parse_expr_with_precedence": "08ca49edb97f47dc",
    "cst_parser.rs:parse_expr_with_precedence_no_linebreak": "f0baf9a21f2ba9a4",
    "cst_parser.rs:parse_function_decl": "25cfa5a6d99fe60f",
    "cst_parser.rs:parse_if_expr": "18cfd579243b4095",
    "cst_parser.rs:parse_include_stmt": "54c38c6a4eb4cada",
    "cst_parser.rs:parse_lambda_expr": "23fe1becc5963c05",
    "cst_parser.rs:parse_let_decl": "7ec3ab0e6b91b985",
    "cst_parser.rs:parse_letrec_decl": "814a1ef9e019079c",
    "cst_parser.rs:parse_macro_decl": "4a25458117fb4ab5",
    "cst_parser.rs:parse_macro_expansion": "729af8d19789efa3",
    "cst_parser.rs:parse_match_arm": "24baeeba2a441c27",
    "cst_parser.rs:parse_match_expr": "98e1fa39f8a2356f",
    "cst_parser.rs:parse_match_pattern": "035f2e63b14744f9",
    "cst_parser.rs:parse_match_tuple_pattern": "c05b4508d4cafd11",
    "cst_parser.rs:parse_module_decl": "66b15e15dd806a8a",
    "cst_parser.rs:parse_param_list": "5cf497fee6b02c89",
    "cst_parser.rs:parse_pattern": "962bf457a4359737",
    "cst_parser.rs:parse_postfix_expr": "0cc6e6318401965b",
    "cst_parser.rs:parse_prefix_expr": "e82420b83807841c",
    "cst_parser.rs:parse_primary": "dfaa35b8523ae22b",
    "cst_parser.rs:parse_qualified_path": "5ecd9dcdce997dee",
    "cst_parser.rs:parse_record_expr": "9012ca0f50caeaba",
    "cst_parser.rs:parse_record_pattern": "6137ff9be9467217",
    "cst_parser.rs:parse_stage_decl": "0c7df2f19a6c2b64",
    "cst_parser.rs:parse_statement": "3175fd5b05130b4b",
    "cst_parser.rs:parse_tuple_expr": "de03b06d90fc9c98",
    "cst_parser.rs:parse_tuple_pattern": "43145f91a742d7b5",
    "cst_parser.rs:parse_type": "57c22db9bd03b311",
    "cst_parser.rs:parse_type_alias_decl": "4775186170ef05c5",
    "cst_parser.rs:parse_type_annotation": "74ee865fcb50acc7",
    "cst_parser.rs:parse_type_decl": "206c268c7da163e5",
    "cst_parser.rs:parse_type_primary": "11d0446eb1cefdec",
    "cst_parser.rs:parse_type_record": "680a76258bef1784",
    "cst_parser.rs:parse_type_tuple_or_paren": "b9f9fd0906f04f57",
    "cst_parser.rs:parse_type_union": "6661824c8d978470",
    "cst_parser.rs:parse_unary_expr": "14aa7bf504cc9d50",
    "cst_parser.rs:parse_use_path": "abaa180ea4b525f0",
    "cst_parser.rs:parse_use_stmt": "9d972fa9561f0785",
    "cst_parser.rs:parse_variant_def": "66960dc9e676f8a9",
    "cst_parser.rs:peek": "b34f37fb7fdbbdc1",
    "cst_parser.rs:peek_ahead": "4d106994486e7f8c",
    "cst_parser.rs:prev_kind_if_adjacent": "17dcd84da2e8ff72",
    "cst_parser.rs:unexpected_eof": "1dbeb6f34004719e",
    "cst_parser.rs:unexpected_token": "d83da4bc3a0d52d1",
    "green.rs:add_token": "3c3ca26a869983f0",
    "green.rs:finish_node": "87b5e08e50c58afb",
    "green.rs:marker": "7338b7e37e8f51fe",
    "green.rs:start_node": "67fa380cfdf96cb3",
    "green.rs:start_node_at": "3a99b4a41adae1e0",
    "preparser.rs:get_token": "47c766703e8f4bd6",
}


class Shape(RuntimeError):
    pass


def strip_comments(src):
    out, i, n = [], 0, len(src)
    while i < n:
        c = src[i]
        if c == '"':
            j = i + 1
            while j < n and src[j] != '"':
                j += 2 if src[j] == "\\" else 1
            out.append(src[i:j + 1]); i = j + 1
        elif src.startswith("//", i):
            while i < n and src[i] != "\n":
                i += 1
        elif src.startswith("/*", i):
            i = src.index("*/", i) + 2
        else:
            out.append(c); i += 1
    return "".join(out)


def balanced(src, i, where):
    """src[i] == '{' -> index just after the matching '}' (string literals respected; no char literals with braces here)"""
    depth, j, n = 0, i, len(src)
    while j < n:
        c = src[j]
        if c == '"':
            j += 1
            while src[j] != '"':
                j += 2 if src[j] == "\\" else 1
        elif c == "{":
            depth += 1
        elif c == "}":
            depth -= 1
            if depth == 0:
                return j + 1
        j += 1
    raise Shape(f"{where}: unbalanced braces")


def all_fns(src, where):
    """{name: text} of every `fn name ... { ... }` in comment-stripped src (nested fns are part of their parent only)"""
    res, pos = {}, 0
    for m in re.finditer(r"\bfn\s+(\w+)\b", src):
        if m.start() < pos:
            continue
        # trait method declarations end with ';' before any '{'
        semi = src.find(";", m.end())
        brace = src.find("{", m.end())
        if brace < 0 or 0 <= semi < brace:
            continue
        end = balanced(src, brace, f"{where}: fn {m.group(1)}")
        name = m.group(1)
        if name in res:
            # same name twice (trait impl + trait decl...): keep both texts
            res[name] += "\n" + src[m.start():end]
        else:
            res[name] = src[m.start():end]
        pos = end
    return res


def norm_hash(text):
    return hashlib.sha256(re.sub(r"\s+", " ", text).strip().encode()).hexdigest()[:16]


def enum_variants(src, name, where):
    m = re.search(r"pub\s+enum\s+" + name + r"\s*\{", src)
    if not m:
        raise Shape(f"{where}: no `pub enum {name}`")
    end = balanced(src, m.end() - 1, where)
    body = src[m.end():end - 1]
    vs = [v.strip() for v in body.split(",") if v.strip()]
    for v in vs:
        if not re.fullmatch(r"[A-Z]\w*", v):
            raise Shape(f"{where}: enum {name}: variant with payload/attribute: {v!r}")
    if len(set(vs)) != len(vs) or not vs:
        raise Shape(f"{where}: enum {name}: duplicate/empty variants")
    return vs


def generate(repo):
    tok_rs = strip_comments(open(f"{repo}/{PDIR}/token.rs").read())
    grn_rs = strip_comments(open(f"{repo}/{PDIR}/green.rs").read())
    cst_rs = strip_comments(open(f"{repo}/{PDIR}/cst_parser.rs").read())
    pre_rs = strip_comments(open(f"{repo}/{PDIR}/preparser.rs").read())

    kinds = enum_variants(tok_rs, "TokenKind", "token.rs")
    skinds = enum_variants(grn_rs, "SyntaxKind", "green.rs")

    m = re.findall(r"const\s+MAX_LOOKAHEAD\s*:\s*usize\s*=\s*(\d+)\s*;", cst_rs)
    if len(m) != 1:
        raise Shape("cst_parser.rs: expected exactly one `const MAX_LOOKAHEAD: usize = <int>;`")
    max_lookahead = int(m[0])

    fns = all_fns(cst_rs, "cst_parser.rs")
    # --- get_infix_precedence: match token_kind { A | B => Some(n), ..., X => None, _ => None } ---
    if "get_infix_precedence" not in fns:
        raise Shape("cst_parser.rs: no fn get_infix_precedence")
    body = fns["get_infix_precedence"]
    mm = re.search(r"\{\s*match\s+token_kind\s*\{(.*)\}\s*\}\s*$", body, re.S)
    if not mm or not re.search(r"fn\s+get_infix_precedence\s*\(\s*&self\s*,\s*token_kind\s*:\s*TokenKind\s*\)\s*->\s*Option<usize>", body):
        raise Shape("cst_parser.rs: get_infix_precedence is not a single `match token_kind { .. }`")
    arms = [a.strip() for a in mm.group(1).split(",") if a.strip()]
    infix, seen_default = [], False
    for a in arms:
        lhs, sep, rhs = a.partition("=>")
        if not sep:
            raise Shape(f"get_infix_precedence: bad arm {a!r}")
        lhs, rhs = lhs.strip(), rhs.strip()
        if lhs == "_":
            if rhs != "None":
                raise Shape("get_infix_precedence: default arm is not None")
            seen_default = True
            continue
        if seen_default:
            raise Shape("get_infix_precedence: arm after the default arm")
        ks = [k.strip() for k in lhs.split("|")]
        for k in ks:
            mk = re.fullmatch(r"TokenKind::(\w+)", k)
            if not mk or mk.group(1) not in kinds:
                raise Shape(f"get_infix_precedence: bad pattern {k!r}")
        ks = [re.fullmatch(r"TokenKind::(\w+)", k).group(1) for k in ks]
        if rhs == "None":
            # an explicit `K => None` arm: K must not be matched by an earlier arm; it contributes nothing
            if any(k in [x for xs, _ in infix for x in xs] for k in ks):
                raise Shape("get_infix_precedence: None arm shadows nothing but repeats a kind")
            continue
        mr = re.fullmatch(r"Some\((\d+)\)", rhs)
        if not mr:
            raise Shape(f"get_infix_precedence: bad result {rhs!r}")
        for k in ks:
            if any(k in xs for xs, _ in infix):
                raise Shape(f"get_infix_precedence: kind {k} in two arms")
        infix.append((ks, int(mr.group(1))))
    if not seen_default or not infix:
        raise Shape("get_infix_precedence: no default arm / empty table")

    # --- get_prefix_precedence: matches!(token_kind, Some(TokenKind::A) | ...) ---
    if "get_prefix_precedence" not in fns:
        raise Shape("cst_parser.rs: no fn get_prefix_precedence")
    body = fns["get_prefix_precedence"]
    mm = re.search(r"->\s*bool\s*\{\s*matches!\s*\(\s*token_kind\s*,(.*)\)\s*\}\s*$", body, re.S)
    if not mm:
        raise Shape("cst_parser.rs: get_prefix_precedence is not a single matches!(token_kind, ..)")
    prefix = []
    for k in mm.group(1).split("|"):
        mk = re.fullmatch(r"Some\(TokenKind::(\w+)\)", k.strip())
        if not mk or mk.group(1) not in kinds:
            raise Shape(f"get_prefix_precedence: bad pattern {k.strip()!r}")
        prefix.append(mk.group(1))

    # --- pins ---
    got = {}
    for nm, txt in fns.items():
        if nm in ("get_infix_precedence", "get_prefix_precedence"):
            continue
        got["cst_parser.rs:" + nm] = norm_hash(txt)
    gfns = all_fns(grn_rs, "green.rs")
    for nm in ("marker", "start_node", "start_node_at", "add_token", "finish_node"):
        if nm not in gfns:
            raise Shape(f"green.rs: no fn {nm}")
        got["green.rs:" + nm] = norm_hash(gfns[nm])
    pfns = all_fns(pre_rs, "preparser.rs")
    if "get_token" not in pfns:
        raise Shape("preparser.rs: no fn get_token")
    got["preparser.rs:get_token"] = norm_hash(pfns["get_token"])
    if __name__ == "__main__" and "--pins" in sys.argv:
        print("PINNED = {")
        for k in sorted(got):
            print(f'    "{k}": "{got[k]}",')
        print("}")
        sys.exit(0)
    if set(got) != set(PINNED):
        raise Shape("the set of hand-transcribed functions changed: added %s removed %s"
                    % (sorted(set(got) - set(PINNED)), sorted(set(PINNED) - set(got))))
    changed = sorted(k for k in got if got[k] != PINNED[k])
    if changed:
        raise Shape("hand-transcribed function(s) changed (re-transcribe in Parser/Model.v, then update the pin): " + ", ".join(changed))

    o = []
    o.append("(* GENERATED from parser/{token,green,cst_parser}.rs by translators/token_kinds.py; do not edit *)")
    o.append("From Coq Require Import List String NArith.")
    o.append("From Mimium Require Import Tables.LexerTables.")
    o.append("Import ListNotations.")
    o.append("")
    o.append("(* token.rs: pub enum TokenKind, variants in declaration order (the inductive type is LexerTables.TokenKind) *)")
    o.append("Definition parser_token_kinds : list TokenKind :=\n  [" + "; ".join("K" + k for k in kinds) + "].")
    o.append("(* fails to compile when LexerTables was generated from a different enum *)")
    o.append("Definition parser_token_kinds_agree : parser_token_kinds = all_kinds := eq_refl.")
    o.append("")
    o.append("(* green.rs: pub enum SyntaxKind (constructors prefixed with S) *)")
    o.append("Inductive SyntaxKind : Set :=\n" + "\n".join(f"  | S{k}" for k in skinds) + ".")
    o.append("Definition syntax_name (k : SyntaxKind) : string :=\n  match k with\n"
             + "\n".join(f'  | S{k} => "{k}"' for k in skinds) + "\n  end%string.")
    o.append("")
    o.append("(* cst_parser.rs: const MAX_LOOKAHEAD *)")
    o.append(f"Definition MAX_LOOKAHEAD : nat := {max_lookahead}.")
    o.append("")
    o.append("(* cst_parser.rs get_infix_precedence: the arms with Some(binding power), in source order *)")
    o.append("Definition infix_table : list (list TokenKind * nat) :=\n  [ "
             + ";\n    ".join("([" + "; ".join("K" + k for k in ks) + f"], {p})" for ks, p in infix) + " ].")
    o.append("")
    o.append("(* cst_parser.rs get_prefix_precedence: matches!(..) *)")
    o.append("Definition prefix_ops : list TokenKind := [" + "; ".join("K" + k for k in prefix) + "].")
    o.append("")
    o.append("(* pins of the hand-transcribed functions (see translators/token_kinds.py) *)")
    for k in sorted(got):
        o.append(f"(*   {k} {got[k]} *)")
    return "\n".join(o) + "\n"


if __name__ == "__main__":
    args = [a for a in sys.argv[1:] if not a.startswith("--")]
    sys.stdout.write(generate(args[0] if args else "/repo"))
