#!/usr/bin/env python3
"""mimium_placeholder.rs.template -> Tables/RustrtTemplate.v

Ties RustRt/Model.v (the Gallina transcription of the generated program's state primitives) to the CURRENT text of the
runtime scaffold:
  * the bodies of `impl StateStorage { new ensure push_pos pop_pos get_state set_state mem delay }`, of the struct and of
    `word_to_f64` are extracted, normalised (comments and white space removed) and compared with the normal forms pinned below
    (the text RustRt/Model.v was transcribed from): ANY edit of a primitive makes this translator raise, which poisons the table
    and breaks the proof obligation C18_template_prims_agree until the transcription is redone;
  * the layout constants of the ring buffer (header words, read/write/data slots) are parsed out of `delay` and emitted as
    Definitions that Model.v uses, so the theorem is about the numbers in the source.
"""
import hashlib, re, sys

TARGET = "RustrtTemplate.v"
PATH = "crates/lib/mimium-lang/src/compiler/mimium_placeholder.rs.template"

# normal forms (white space and comments removed) of the primitives RustRt/Model.v transcribes
PINNED = {
    "struct": "structStateStorage{pos:usize,rawdata:Vec<Word>,}",
    "word_to_f64": "fnword_to_f64(value:Word)->f64{f64::from_bits(value)}",
    "new": "fnnew(size:usize)->Self{Self{pos:0,rawdata:vec![0;size],}}",
    "ensure": "fnensure(&mutself,size:usize){letneeded=self.pos.saturating_add(size);ifself.rawdata.len()<needed{self.rawdata.resize(needed,0);}}",
    "push_pos": "fnpush_pos(&mutself,offset:usize){self.pos=self.pos.saturating_add(offset);}",
    "pop_pos": "fnpop_pos(&mutself,offset:usize){self.pos=self.pos.saturating_sub(offset);}",
    "get_state": "fnget_state(&mutself,size:usize)->Vec<Word>{self.ensure(size);self.rawdata[self.pos..self.pos+size].to_vec()}",
    "set_state": "fnset_state(&mutself,src:&[Word],size:usize){self.ensure(size);self.rawdata[self.pos..self.pos+size].copy_from_slice(&src[..size]);}",
    "mem": "fnmem(&mutself,src:Word)->Word{self.ensure(1);letprev=self.rawdata[self.pos];self.rawdata[self.pos]=src;prev}",
    "delay": ("fndelay(&mutself,input:Word,time_raw:Word,max_len:usize)->Word{lettotal_words=max_len.saturating_add(@HDR@);"
              "self.ensure(total_words);ifmax_len==0{return0;}letdelay_samples=word_to_f64(time_raw).clamp(0.0,max_len.saturating_sub(1)asf64)asusize;"
              "letread_slot=self.pos@RD@;letwrite_slot=self.pos+@WR@;letdata_start=self.pos+@DATA@;"
              "letwrite_idx=(self.rawdata[write_slot]asusize)%max_len;letread_idx=(write_idx+max_len-delay_samples)%max_len;"
              "letresult=self.rawdata[data_start+read_idx];self.rawdata[data_start+write_idx]=input;self.rawdata[read_slot]=read_idxasu64;"
              "self.rawdata[write_slot]=((write_idx+1)%max_len)asu64;result}"),
}


def norm(t):
    t = re.sub(r"//[^\n]*", "", t)
    t = re.sub(r"/\*.*?\*/", "", t, flags=re.S)
    return re.sub(r"\s+", "", t)


def balanced(src, start):
    """text from `start` up to and including the brace block that opens at/after start"""
    i = src.index("{", start)
    depth, j = 0, i
    while j < len(src):
        if src[j] == "{":
            depth += 1
        elif src[j] == "}":
            depth -= 1
            if depth == 0:
                return src[start:j + 1]
        j += 1
    raise RuntimeError("translator rustrt_template: unbalanced braces")


def extract(repo):
    src = open(f"{repo}/{PATH}").read()
    out = {}
    m = re.search(r"struct StateStorage\s*\{", src)
    if not m:
        raise RuntimeError("translator rustrt_template: `struct StateStorage {` not found in the template")
    out["struct"] = norm(balanced(src, m.start()))
    m = re.search(r"fn word_to_f64\(", src)
    if not m:
        raise RuntimeError("translator rustrt_template: fn word_to_f64 not found")
    out["word_to_f64"] = norm(balanced(src, m.start()))
    m = re.search(r"impl StateStorage\s*\{", src)
    if not m:
        raise RuntimeError("translator rustrt_template: `impl StateStorage {` not found in the template")
    impl = balanced(src, m.start())
    names = re.findall(r"\bfn\s+(\w+)\s*\(", impl)
    want = ["new", "ensure", "push_pos", "pop_pos", "get_state", "set_state", "mem", "delay"]
    if names != want:
        raise RuntimeError(f"translator rustrt_template: impl StateStorage has methods {names}, the transcription covers {want}")
    for n in want:
        mm = re.search(r"\bfn\s+%s\s*\(" % n, impl)
        out[n] = norm(balanced(impl, mm.start()))
    return out


def generate(repo):
    got = extract(repo)
    consts = {}
    for name, pinned in PINNED.items():
        if name == "delay":
            # the four layout numbers are parameters of the pinned text
            pat = re.escape(pinned)
            pat = pat.replace(re.escape("@HDR@"), r"(?P<hdr>\d+)").replace(re.escape("@RD@"), r"(?P<rd>(?:\+\d+)?)")
            pat = pat.replace(re.escape("@WR@"), r"(?P<wr>\d+)").replace(re.escape("@DATA@"), r"(?P<data>\d+)")
            m = re.fullmatch(pat, got[name])
            if not m:
                raise RuntimeError("translator rustrt_template: StateStorage::delay no longer has the transcribed shape: " + got[name][:400])
            consts = {"hdr": int(m.group("hdr")), "rd": int((m.group("rd") or "+0")[1:]), "wr": int(m.group("wr")), "data": int(m.group("data"))}
        elif got[name] != pinned:
            raise RuntimeError(f"translator rustrt_template: StateStorage `{name}` changed; RustRt/Model.v transcribes `{pinned}` but the template has `{got[name]}`")
    digest = hashlib.sha256("\n".join(got[k] for k in sorted(got)).encode()).hexdigest()
    return ("(* GENERATED from compiler/mimium_placeholder.rs.template by translators/rustrt_template.py; do not edit *)\n"
            "From Coq Require Import NArith String.\n"
            f"(* sha256 of the normalised primitive bodies the transcription was checked against *)\n"
            f"Definition TEMPLATE_PRIMS_SHA256 : string := \"{digest}\"%string.\n"
            f"(* StateStorage::delay: total_words = max_len + DELAY_HEADER; read_slot = pos + RD; write_slot = pos + WR; data_start = pos + DATA *)\n"
            f"Definition TPL_DELAY_HEADER : N := {consts['hdr']}%N.\n"
            f"Definition TPL_READ_SLOT : N := {consts['rd']}%N.\n"
            f"Definition TPL_WRITE_SLOT : N := {consts['wr']}%N.\n"
            f"Definition TPL_DATA_START : N := {consts['data']}%N.\n")


if __name__ == "__main__":
    sys.stdout.write(generate(sys.argv[1] if len(sys.argv) > 1 else "/repo"))
