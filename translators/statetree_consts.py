#!/usr/bin/env python3
"""tree.rs -> Tables/StateTreeConsts.v  (DELAY_ADDITIONAL_OFFSET)"""
import re, sys
TARGET = "StateTreeConsts.v"
def generate(repo):
    src = open(f"{repo}/crates/lib/mimium-lang/state-tree/src/tree.rs").read()
    m = re.findall(r"pub const DELAY_ADDITIONAL_OFFSET\s*:\s*usize\s*=\s*(\d+)\s*;", src)
    if len(m) != 1:
        raise RuntimeError("translator statetree_consts: expected exactly one `pub const DELAY_ADDITIONAL_OFFSET: usize = <int>;` in tree.rs")
    return ("(* GENERATED from state-tree/src/tree.rs by translators/statetree_consts.py; do not edit *)\n"
            "From Coq Require Import NArith.\n"
            f"Definition DELAY_ADDITIONAL_OFFSET : N := {m[0]}%N.\n")
if __name__ == "__main__":
    sys.stdout.write(generate(sys.argv[1] if len(sys.argv) > 1 else "/repo"))
