#!/usr/bin/env python3
"""crates/lib/mimium-lang/src/**/*.rs  ->  Tables/HashIterSites.v      (property C15)

Lists every place where the compiler (and the runtimes) ITERATE over a std HashMap / HashSet, i.e. where the
per-process random hash seed could reach an output.  A site is

    (file relative to src/, enclosing function "Type::fn", normalised text of the source lines of the site)

Method (regex over comment/string-stripped source, no Rust parser):
  1. hash type names: HashMap, HashSet, every `type X = ..HashMap<..` alias (all files), tuple structs wrapping one;
  2. hash-typed NAMES: struct fields and statics (global, by name), fn parameters / typed or hash-initialised
     `let`s / closure parameters (scoped to the enclosing fn), functions whose return type mentions a hash type;
  3. sites: `for PAT in EXPR {` where EXPR mentions a hash-typed name, and
     NAME[.as_ref()|.unwrap()|.clone()|.borrow()|.lock()..]*.{iter,iter_mut,values,values_mut,keys,into_iter,
     into_keys,into_values,drain,retain,extract_if}( ,  extend(NAME..) / from_iter(NAME..).
The over-approximation is deliberate (a Vec<HashSet<_>> field that is only iterated as a Vec is listed, too): every listed
site has to be classified by hand in Interner/SiteClasses.v, and C15_sites_classified breaks when a site is new or changed.
Raises when the source no longer has the expected shape.
"""
import hashlib, os, re

TARGET = "HashIterSites.v"
SRC = "crates/lib/mimium-lang/src"
# files the property anchors; all must exist and contain at least one hash container
ANCHORS = ["compiler/typing.rs", "compiler/wasmgen.rs", "compiler/bytecodegen.rs", "compiler/mirgen.rs", "ast/program.rs"]
EXPECT_ALIASES = {"ConstructorEnv", "TypeDeclarationMap", "TypeAliasMap"}
ITER_METHODS = ["iter", "iter_mut", "values", "values_mut", "keys", "into_iter", "into_keys", "into_values", "drain",
                "retain", "extract_if"]
ORDER_METHODS = ["first_key_value", "last_key_value", "pop_first", "pop_last", "range", "first", "last"]
SORT_METHODS = ["sort", "sort_unstable", "sort_by", "sort_by_key", "sort_unstable_by", "sort_unstable_by_key", "sort_by_cached_key", "sorted",
                "sorted_by", "sorted_by_key", "sorted_unstable", "binary_search", "binary_search_by", "binary_search_by_key", "partition_point",
                "is_sorted", "cmp", "partial_cmp"]
SMALL_FN_LINES = 120
PASS_METHODS = ["as_ref", "as_mut", "unwrap", "clone", "cloned", "borrow", "borrow_mut", "lock", "read", "write", "expect",
                "as_deref", "unwrap_or_default", "to_owned"]


class Shape(RuntimeError):
    pass


def need(c, msg):
    if not c:
        raise Shape("translator hash_iter_sites: " + msg)


def blank_noncode(src):
    """Replace comments, string and char literal contents by spaces (newlines kept) so that offsets/lines are preserved."""
    out = list(src)
    i, n = 0, len(src)

    def blank(a, b):
        for k in range(a, b):
            if out[k] != "\n":
                out[k] = " "
    while i < n:
        c = src[i]
        if src.startswith("//", i):
            j = src.find("\n", i)
            j = n if j < 0 else j
            blank(i, j)
            i = j
        elif src.startswith("/*", i):
            depth, j = 1, i + 2
            while j < n and depth:
                if src.startswith("/*", j):
                    depth += 1; j += 2
                elif src.startswith("*/", j):
                    depth -= 1; j += 2
                else:
                    j += 1
            blank(i, j)
            i = j
        elif c == '"' or (c == "r" and re.match(r'r#*"', src[i:i + 8]) and not (i and (src[i - 1].isalnum() or src[i - 1] == "_"))):
            if c == "r":
                m = re.match(r'r(#*)"', src[i:i + 8])
                close = '"' + m.group(1)
                j = src.find(close, i + len(m.group(0)))
                need(j >= 0, "unterminated raw string")
                blank(i + len(m.group(0)), j)
                i = j + len(close)
            else:
                j = i + 1
                while j < n and src[j] != '"':
                    j += 2 if src[j] == "\\" else 1
                need(j < n, "unterminated string")
                blank(i + 1, j)
                i = j + 1
        elif c == "'":
            m = re.match(r"'(\\(x[0-9a-fA-F]{2}|u\{[0-9a-fA-F]+\}|.)|[^\\'])'", src[i:i + 14], re.S)
            if m:
                blank(i + 1, i + len(m.group(0)) - 1)
                i += len(m.group(0))
            else:
                i += 1  # lifetime
        else:
            i += 1
    return "".join(out)


def drop_test_modules(code):
    """blank `#[cfg(test)] mod x { .. }` blocks (not compiled into the library)"""
    out = code
    for m in re.finditer(r"#\[cfg\(test\)\]\s*(?:#\[[^\]]*\]\s*)*(?:pub\s+)?mod\s+\w+\s*\{", code):
        e = match_close(code, m.end() - 1, "{", "}")
        out = out[:m.start()] + re.sub(r"[^\n]", " ", code[m.start():e + 1]) + out[e + 1:]
    return out


def match_close(s, i, o, c):
    """s[i]==o; index of the matching c"""
    depth = 0
    for k in range(i, len(s)):
        if s[k] == o:
            depth += 1
        elif s[k] == c:
            depth -= 1
            if depth == 0:
                return k
    raise Shape("translator hash_iter_sites: unbalanced %s%s" % (o, c))


def type_extent(s, i):
    """a type expression starting at s[i]; stops at , ) = ; { | > at bracket depth 0. Returns end index."""
    depth = 0
    k = i
    while k < len(s):
        ch = s[k]
        if ch in "<([":
            depth += 1
        elif ch in ">)]":
            if ch == ">" and k > 0 and s[k - 1] == "-":
                pass  # '->' inside fn types
            else:
                if depth == 0:
                    return k
                depth -= 1
        elif ch in ",=;{|" and depth == 0:
            return k
        k += 1
    return k


def functions(code):
    """[(qualified name, sig_start, body_start, body_end)] for every fn with a body; impl-qualified"""
    impls = []
    for m in re.finditer(r"\b(impl|trait)\b([^{;]*)\{", code):
        hdr = m.group(2)
        hdr = re.sub(r"<[^<>]*(<[^<>]*(<[^<>]*>[^<>]*)*>[^<>]*)*>", "", hdr)  # drop generics
        hdr = hdr.split(" where ")[0]
        tgt = hdr.split(" for ")[-1].strip() if m.group(1) == "impl" else hdr.strip().split(":")[0].strip()
        tgt = re.sub(r"[^\w:]", "", tgt.split()[-1] if tgt.split() else "")
        try:
            e = match_close(code, m.end() - 1, "{", "}")
        except Shape:
            continue
        impls.append((tgt, m.end() - 1, e))
    fns = []
    for m in re.finditer(r"\bfn\s+(\w+)", code):
        p = code.find("(", m.end())
        lt = code.find("<", m.end())
        if lt >= 0 and lt < p and code[m.end():lt].strip() == "":
            # generics: skip to the matching >
            depth, k = 0, lt
            while k < len(code):
                if code[k] == "<":
                    depth += 1
                elif code[k] == ">" and code[k - 1] != "-":
                    depth -= 1
                    if depth == 0:
                        break
                k += 1
            p = code.find("(", k)
        if p < 0:
            continue
        pe = match_close(code, p, "(", ")")
        k = pe + 1
        while k < len(code) and code[k] not in "{;":
            k += 1
        if k >= len(code) or code[k] == ";":
            continue
        be = match_close(code, k, "{", "}")
        owner = ""
        for tgt, a, b in impls:
            if a < m.start() < b:
                owner = tgt  # innermost wins because impls are in textual order and nested impls come later
        fns.append(((owner + "::" if owner else "") + m.group(1), m.start(), k, be, (p, pe)))
    return fns


def collapse(s):
    s = re.sub(r"\s+", " ", s).strip()
    return "".join(ch if 32 <= ord(ch) < 127 else "?" for ch in s)


def coq_str(s):
    return '"' + s.replace('"', '""') + '"'


def module_prefix(f):
    """path prefix of the files that can see private items of the module defined by file f"""
    if f.endswith("/mod.rs"):
        return f[:-len("mod.rs")]
    if f in ("lib.rs", "main.rs"):
        return ""
    return f[:-3]


def visible(prefix, f):
    return prefix == "" or f == prefix + ".rs" or f.startswith(prefix if prefix.endswith("/") else prefix + "/")


def rust_files(root):
    res = []
    for d, _, fs in os.walk(root):
        for f in fs:
            if f.endswith(".rs"):
                res.append(os.path.relpath(os.path.join(d, f), root))
    return sorted(res)


def scan(repo):
    root = os.path.join(repo, SRC)
    need(os.path.isdir(root), "source directory missing: " + root)
    files = rust_files(root)
    for a in ANCHORS:
        need(a in files, "anchored file missing: " + a)
    raw = {f: open(os.path.join(root, f), encoding="utf-8", errors="replace").read() for f in files}
    code = {f: drop_test_modules(blank_noncode(raw[f])) for f in files}

    # 1. hash type names
    htypes = {"HashMap", "HashSet"}
    changed = True
    while changed:
        changed = False
        for f in files:
            for m in re.finditer(r"\btype\s+(\w+)\s*(?:<[^=]*>)?\s*=\s*([^;]+);", code[f]):
                if m.group(1) not in htypes and re.search(r"\b(%s)\b" % "|".join(map(re.escape, htypes)), m.group(2)):
                    htypes.add(m.group(1)); changed = True
    aliases = sorted(htypes - {"HashMap", "HashSet"})
    need(EXPECT_ALIASES <= set(aliases), "expected hash-map type aliases not found: %s" % sorted(EXPECT_ALIASES - set(aliases)))
    HT = re.compile(r"\b(%s)\b" % "|".join(map(re.escape, sorted(htypes))))
    for a in ANCHORS:
        need(HT.search(code[a]), "anchored file has no hash container any more: " + a)

    # 2. global names: struct fields, statics, hash-returning functions, tuple-struct wrappers
    gnames, wrappers, hfuns, fnames = set(), {}, set(), {}
    for f in files:
        c = code[f]
        for m in re.finditer(r"\b(?:struct|union)\s+(\w+)[^;{(]*\{", c):
            e = match_close(c, m.end() - 1, "{", "}")
            body = c[m.end():e]
            for fm in re.finditer(r"(?:^|[,{\n])\s*(pub(?:\([^)]*\))?\s+)?(\w+)\s*:\s*", body):
                te = type_extent(body, fm.end())
                if HT.search(body[fm.end():te]):
                    if fm.group(1):
                        gnames.add(fm.group(2))
                    else:   # private field: visible in the declaring module and its children only
                        fnames.setdefault(fm.group(2), set()).add(module_prefix(f))
        for m in re.finditer(r"\benum\s+\w+[^;{(]*\{", c):   # named fields of enum variants
            e = match_close(c, m.end() - 1, "{", "}")
            body = c[m.end():e]
            for fm in re.finditer(r"(?:^|[,{\n])\s*(\w+)\s*:\s*", body):
                te = type_extent(body, fm.end())
                if HT.search(body[fm.end():te]):
                    gnames.add(fm.group(1))
        for m in re.finditer(r"\bstruct\s+(\w+)\s*(?:<[^>]*>)?\s*\(([^;]*)\)\s*;", c):
            parts = m.group(2).split(",")
            for k, p in enumerate(parts):
                if HT.search(p):
                    wrappers.setdefault(f, set()).add(str(k))
        for m in re.finditer(r"\b(?:static|const)\s+(?:mut\s+)?(\w+)\s*:\s*([^=;]+)[=;]", c):
            if HT.search(m.group(2)):
                gnames.add(m.group(1))
        for (name, s0, b0, b1, (p, pe)) in functions(c):
            ret = c[pe + 1:b0]
            if "->" in ret and HT.search(ret.split("where")[0]):
                hfuns.add(name.split("::")[-1])

    # 3. per function: local names + sites
    sites = []
    osites = []
    nfun = 0
    OT = re.compile(r"\bBTree(?:Map|Set)\s*<\s*(?:crate::interner::)?Symbol\b")
    ognames = set()
    for f in files:
        for m in re.finditer(r"\b(?:struct|union|enum)\s+\w+[^;{(]*\{", code[f]):
            e = match_close(code[f], m.end() - 1, "{", "}")
            body = code[f][m.end():e]
            for fm in re.finditer(r"(?:^|[,{\n])\s*(?:pub(?:\([^)]*\))?\s+)?(\w+)\s*:\s*", body):
                te = type_extent(body, fm.end())
                if OT.search(body[fm.end():te]):
                    ognames.add(fm.group(1))
    for f in files:
        c = code[f]
        fns = functions(c)
        nfun += len(fns)
        line_starts = [0] + [m.end() for m in re.finditer(r"\n", c)]

        def line_of(off):
            import bisect
            return bisect.bisect_right(line_starts, off) - 1

        def owner(off):
            best = None
            for fn in fns:
                if fn[1] <= off <= fn[3] and (best is None or fn[1] > best[1]):
                    best = fn
            return best

        known_hash_fields = set(gnames) | {nm for nm, prefs in fnames.items() if any(visible(p, f) for p in prefs)}
        local = {}
        for fn in fns:
            name, s0, b0, b1, (p, pe) = fn
            text = c[s0:b1 + 1]
            names = set()
            for m in re.finditer(r"(?<![\w:])(\w+)\s*:\s*(?!:)", text):
                te = type_extent(text, m.end())
                if HT.search(text[m.end():te]) and m.group(1) not in ("self",):
                    names.add(m.group(1))
            for m in re.finditer(r"\blet\s+(?:mut\s+)?(\w+)\s*(?::[^=;]*)?=", text):
                # initialiser up to ';' at depth 0
                k, depth = m.end(), 0
                while k < len(text):
                    ch = text[k]
                    if ch in "([{":
                        depth += 1
                    elif ch in ")]}":
                        depth -= 1
                        if depth < 0:
                            break
                    elif ch == ";" and depth == 0:
                        break
                    k += 1
                init = text[m.end():k]
                if HT.search(init) or (hfuns and re.search(r"\b(%s)\s*\(" % "|".join(map(re.escape, sorted(hfuns))), init)):
                    names.add(m.group(1))
                else:
                    # a copy / reference of a hash-typed name:  let m = self.fn_name_to_idx.clone();
                    tm = re.search(r"(?<![\w])(\w+)\s*(?:\.\s*(?:%s)\s*\([^()]*\)\s*\??\s*)*$" % "|".join(PASS_METHODS), init.strip())
                    if tm and tm.group(1) in (known_hash_fields | names):
                        names.add(m.group(1))
            # accumulator of a fold that starts from a hash container: `.fold(HashMap::new(), |mut acc, x| ..)`
            for m in re.finditer(r"\.\s*fold\s*\(", text):
                k = m.end()
                comma = None
                depth = 0
                while k < len(text):
                    ch = text[k]
                    if ch in "([{<":
                        depth += 1
                    elif ch in ")]}>" and not (ch == ">" and text[k - 1] in "-="):
                        depth -= 1
                        if depth < 0:
                            break
                    elif ch == "," and depth == 0:
                        comma = k
                        break
                    k += 1
                if comma is not None and HT.search(text[m.end():comma]):
                    cm = re.match(r"\s*(?:move\s+)?\|\s*(?:mut\s+)?(\w+)", text[comma + 1:])
                    if cm:
                        names.add(cm.group(1))
            local[fn] = names

        file_fields = {nm for nm, prefs in fnames.items() if any(visible(p, f) for p in prefs)}

        def names_at(off):
            ns = set(gnames) | hfuns | file_fields
            for fn in fns:
                if fn[1] <= off <= fn[3]:
                    ns |= local[fn]
            return ns

        found = []   # (start, end, kind)
        # (a) for loops
        for m in re.finditer(r"\bfor\b\s+", c):
            # find ' in ' at depth 0, then '{' at depth 0
            k, depth, in_at = m.end(), 0, None
            while k < len(c):
                ch = c[k]
                if ch in "([":
                    depth += 1
                elif ch in ")]":
                    depth -= 1
                elif depth == 0 and in_at is None and re.match(r"\bin\b", c[k:k + 3]) and not (c[k - 1].isalnum() or c[k - 1] == "_"):
                    in_at = k + 2
                    k += 2
                    continue
                elif ch == "{" and depth == 0 and in_at is not None:
                    break
                elif ch in ";}" and depth == 0 and in_at is None:
                    k = None
                    break
                elif ch == "<" and in_at is None and depth == 0 and c[m.start() - 1:m.start()] != "":
                    pass
                k += 1
            if k is None or k >= len(c) or in_at is None:
                continue   # `for<'a>` bounds, `impl X for Y`
            if re.search(r"\bimpl\b[^;{}]*$", c[max(0, m.start() - 200):m.start()]) and not re.search(r"[;{}]\s*$", c[max(0, m.start() - 200):m.start()]):
                continue   # impl Trait for Type
            expr = c[in_at:k]
            ns = names_at(m.start())
            wr = wrappers.get(f, set())
            hit = any(re.search(r"(?<![\w])%s\b" % re.escape(nm), expr) for nm in ns) or any(re.search(r"\.\s*%s\b" % w, expr) for w in wr)
            if hit:
                found.append((m.start(), k + 1, "for"))
        # (b) iteration methods on a hash-typed name
        passm = r"(?:\s*\.\s*(?:%s)\s*\([^()]*\)\s*\??)*" % "|".join(PASS_METHODS)
        for m in re.finditer(r"(?<![\w])(\w+)\b" + passm + r"\s*\.\s*(%s)\s*\(" % "|".join(ITER_METHODS), c):
            nm = m.group(1)
            ns = names_at(m.start())
            wr = wrappers.get(f, set())
            isw = nm in wr and c[:m.start()].rstrip().endswith(".")
            if nm in ns or isw:
                found.append((m.start(), m.end(), "." + m.group(2)))
        # (c) extend(NAME ..) / from_iter(NAME ..)
        for m in re.finditer(r"\b(extend|from_iter)\s*\(\s*(?:&\s*(?:mut\s+)?)?((?:\w+\s*\.\s*)*)(\w+)\b(?!\s*\()", c):
            if m.group(3) in names_at(m.start()):
                found.append((m.start(), m.end(), m.group(1)))
        # (d) HASHNAME.extend(..): the argument is consumed in its own iteration order and inserted into a hash container
        for m in re.finditer(r"(?<![\w])(\w+)\s*\.\s*extend\s*\(", c):
            if m.group(1) in names_at(m.start()) and not any(a <= m.start() < b for a, b, _ in found):
                found.append((m.start(), m.end(), "extend-into"))
        # ---- ordered-by-Symbol sites (Symbol derives Ord from its interner index = order of first interning) ----------
        ofound = []
        onames_here = set(ognames)
        for fn in fns:
            text = c[fn[1]:fn[3] + 1]
            for m in re.finditer(r"(?<![\w:])(\w+)\s*:\s*(?!:)", text):
                te = type_extent(text, m.end())
                if OT.search(text[m.end():te]) and m.group(1) != "self":
                    onames_here.add(m.group(1))
            for m in re.finditer(r"\blet\s+(?:mut\s+)?(\w+)\s*(?::[^=;]*)?=\s*([^;]{0,200})", text):
                if OT.search(m.group(2)):
                    onames_here.add(m.group(1))
        if onames_here:
            alt = "|".join(map(re.escape, sorted(onames_here)))
            for m in re.finditer(r"\bfor\b\s+[^;{}]*?\bin\b([^;{}]*?)\{", c):
                if re.search(r"(?<![\w])(%s)\b" % alt, m.group(1)):
                    ofound.append((m.start(), m.end(), "for"))
            for m in re.finditer(r"(?<![\w])(%s)\b" % alt + passm + r"\s*\.\s*(%s)\s*\(" % "|".join(ITER_METHODS + ORDER_METHODS), c):
                ofound.append((m.start(), m.end(), "." + m.group(2)))
        # every sort / binary search / comparison call, whatever the receiver (the element type is usually inferred)
        for m in re.finditer(r"\.\s*(%s)\s*(?:::<[^>]*>)?\s*\(" % "|".join(SORT_METHODS), c):
            k = m.start()
            # extend left over the receiver chain on the same statement
            j = k
            while j > 0 and (c[j - 1].isalnum() or c[j - 1] in "_.)(]&*[ \n\t") and c[j - 1] not in ";{}":
                if c[j - 1] in "()":   # do not try to balance: stop at a call boundary that is not part of a simple chain
                    break
                j -= 1
            j2 = len(c[:j]) + (len(c[j:k]) - len(c[j:k].lstrip()))
            ofound.append((j2, m.end(), "." + m.group(1)))

        def emit_sites(found, sites):
          fors = [(a, b) for a, b, k in found if k == "for"]
          seen = {}
          sortspans = [(a, b) for a, b, k in found if k.lstrip(".") in SORT_METHODS and k.lstrip(".") not in ("cmp", "partial_cmp")]
          for a, b, kind in sorted(found):
            if kind != "for" and any(fa <= a < fb for fa, fb in fors):
                continue
            if kind in (".cmp", ".partial_cmp") and any(stmt_end(sa) >= a >= sa for sa, sb in sortspans):
                continue      # the comparator of a listed sort call
            fn = owner(a)
            fname = fn[0] if fn else "<module>"
            l0, l1 = line_of(a), line_of(max(a, b - 1))
            src_lines = code[f].split("\n")
            while l0 > 0 and src_lines[l0].lstrip().startswith((".", "?")):   # continuation of a method chain
                l0 -= 1
            # the site text comes from the ORIGINAL source lines (comments stripped), whitespace collapsed
            txt = collapse(" ".join(src_lines[l0:l1 + 1]))
            key = (f, fname, txt)
            seen[key] = seen.get(key, 0) + 1
            if seen[key] > 1:
                txt = txt + "  #%d" % seen[key]
            # fingerprint of the code the classification argues about: the whole enclosing function when it is small,
            # else the loop (header + body) / the statement containing the site
            if fn and c.count("\n", fn[1], fn[3]) <= SMALL_FN_LINES:
                extent = c[fn[1]:fn[3] + 1]
            elif kind == "for":
                extent = c[a:match_close(c, b - 1, "{", "}") + 1]
            else:
                k, depth = a, 0
                while k < len(c):
                    ch = c[k]
                    if ch in "([{":
                        depth += 1
                    elif ch in ")]}":
                        depth -= 1
                        if depth < 0:
                            break
                    elif ch == ";" and depth == 0:
                        break
                    k += 1
                extent = c[line_starts[l0]:k + 1]
            fp = hashlib.sha256(collapse(extent).encode()).hexdigest()[:10]
            sites.append((f, fname, txt, l0 + 1, fp))

        def stmt_end(a):
            k, depth = a, 0
            while k < len(c):
                ch = c[k]
                if ch in "([{":
                    depth += 1
                elif ch in ")]}":
                    depth -= 1
                    if depth < 0:
                        break
                elif ch == ";" and depth == 0:
                    break
                k += 1
            return k

        emit_sites(found, sites)
        emit_sites(ofound, osites)
    need(nfun > 300, "found only %d functions; the scanner no longer understands the source" % nfun)
    need(len(sites) >= 10, "found only %d iteration sites" % len(sites))
    return files, aliases, sorted(gnames | set(fnames)), sorted(hfuns), sites, osites


def generate(repo):
    files, aliases, gnames, hfuns, sites, osites = scan(repo)
    L = ["(* GENERATED by translators/hash_iter_sites.py from %s/**/*.rs -- do not edit *)" % SRC,
         "From Coq Require Import String List.", "Import ListNotations.", "Open Scope string_scope.", "",
         "(* std HashMap/HashSet type names (aliases resolved transitively) *)",
         "Definition hash_type_aliases : list string := [%s]." % "; ".join(coq_str(a) for a in aliases), "",
         "(* struct fields / statics declared with a hash container type (matched by name in every file) *)",
         "Definition hash_field_names : list string := [%s]." % "; ".join(coq_str(a) for a in gnames), "",
         "(* functions whose return type mentions a hash container *)",
         "Definition hash_returning_functions : list string := [%s]." % "; ".join(coq_str(a) for a in hfuns), "",
         "Definition scanned_files : list string := [%s]." % "; ".join(coq_str(a) for a in files), "",
         "(* (file, enclosing function, normalised source text of the iteration site, fingerprint of the code around it:",
         "   sha256 prefix of the whitespace-normalised enclosing function if it has <= %d lines, else of the loop / statement) *)" % SMALL_FN_LINES,
         "Definition hash_iter_sites : list (string * string * string * string) := ["]
    rows = ["  (%s, %s, %s, %s)  (* line %d *)" % (coq_str(f), coq_str(fn), coq_str(t), coq_str(fp), ln) for f, fn, t, ln, fp in sites]
    body = ";\n".join(rows)
    # the trailing comment of the last row must stay before the bracket
    L.append(body)
    L.append("].")
    L.append("")
    L += ["(* ordered-by-Symbol candidates: every sort / sorted / binary_search / partition_point / cmp call and every iteration of a",
          "   BTreeMap<Symbol,_> / BTreeSet<Symbol> (Symbol: Ord is the interner index, i.e. the order of first interning in the process:",
          "   Props/C15.v C15_id_order_refuted).  Same shape as above. *)",
          "Definition symbol_order_sites : list (string * string * string * string) := ["]
    L.append(";\n".join("  (%s, %s, %s, %s)  (* line %d *)" % (coq_str(f), coq_str(fn), coq_str(t), coq_str(fp), ln) for f, fn, t, ln, fp in osites))
    L.append("].")
    L.append("")
    return "\n".join(L)


if __name__ == "__main__":
    import sys
    repo = sys.argv[1] if len(sys.argv) > 1 else os.environ.get("VERIF_REPO", "/repo")
    files, aliases, gnames, hfuns, sites, osites = scan(repo)
    print("aliases", aliases)
    print("fields", gnames)
    print("hfuns", hfuns)
    for s in sites:
        print("%s:%d  [%s]  %s  <%s>" % (s[0], s[3], s[1], s[2], s[4]))
    print(len(sites), "sites")
    for s in osites:
        print("ORD %s:%d  [%s]  %s  <%s>" % (s[0], s[3], s[1], s[2], s[4]))
    print(len(osites), "order sites")
